(* Interp_SE3.v — property C15 for SE3: SLERP starts at A exactly and ends at B as a transformation (the translation of B
   and the quaternion of B up to sign) whenever the relative element A^-1 B is on the closed-form branch of log and not a half
   turn. *)
From Coq Require Import Reals ZArith List Lra Psatz.
From Manif Require Import Scalar Mat Consts Group RInst Tac Atan2 SO3 SE3 Generic LieSpec SO3Proofs Algorithms Log_SO3 JacInv_SO3 Log_SE3 Log_SE23 InterpProofs Interp_SO3 LogExp_SGal3.
Import ListNotations.
Local Open Scope R_scope.

Section P.
Variable eps : R.
Hypothesis eps_pos : 0 < eps.
Local Notation G := (SE3 RS eps).
Local Notation C := (SE3_core eps eps_pos).

Lemma se3_log_shape X : se3_valid X -> exists a b c d e f, se3_log RS eps X = [a; b; c; d; e; f].
Proof.
  intros (tx & ty & tz & x & y & z & w & -> & Hn). unfold se3_log, se3_q, se3_t. cbn [vslice skipn firstn].
  assert (Hl : exists a b c, so3_log RS eps [x; y; z; w] = [a; b; c]) by (unfold so3_log; cbn [firstn]; unfold vscale_r; cbn [map]; do 3 eexists; reflexivity).
  destruct Hl as (a & b & c & Hl). cbn [K RS] in *. rewrite Hl.
  assert (HA : exists a1 a2 a3 a4 a5 a6 a7 a8 a9, so3_ljacinv RS eps [a; b; c] = [[a1; a2; a3]; [a4; a5; a6]; [a7; a8; a9]]).
  { unfold so3_ljacinv, so3_hat. destruct (kleb _ _); mat_unfold; do 9 eexists; reflexivity. }
  destruct (mvmul3_shape _ [tx; ty; tz] HA) as (p0 & p1 & p2 & Ep). cbn [K RS] in *. rewrite Ep. do 6 eexists. reflexivity.
Qed.

Theorem se3_slerp_zero A B : se3_valid A -> se3_valid B -> @interpolate_slerp RS G A B 0 = Ok A.
Proof.
  intros HA HB. unfold interpolate_slerp. rewrite in01_true by lra. f_equal.
  unfold rplus_v, rminus_v, tscale. cbn [g_compose g_exp g_log g_inverse SE3].
  assert (HZ : se3_valid (se3_compose RS eps (se3_inverse RS A) B)).
  { apply (gc_compose_valid _ C); [apply (gc_inverse_valid _ C)|]; assumption. }
  destruct (se3_log_shape _ HZ) as (a & b & c & d & e & f & ->). cbn [vscale_r map]. cbn [K RS kmul].
  assert (He : se3_exp RS eps [a * 0; b * 0; c * 0; d * 0; e * 0; f * 0] = g_identity G).
  { rewrite (se3_identity_eq eps eps_pos). unfold se3_exp, se3t_ang, se3t_lin, so3_ljac, so3_exp, so3_hat. cbn [skipn firstn]. mat_unfold.
    replace (d * 0 * (d * 0) + (e * 0 * (e * 0) + (f * 0 * (f * 0) + 0))) with 0 by ring.
    rewrite (Rltb_lt_false eps 0) by lra. cbn [negb]. unfold c_half. mat_unfold.
    match goal with |- @eq _ ?u ?v => change (@eq (list R) u v) end. list_eq; field. }
  rewrite He. exact (gc_neutral_r _ C A HA).
Qed.

Lemma se3_compose_neg_r A tx ty tz x y z w : se3_valid A -> n4 x y z w = 1 ->
  se3_compose RS eps A [tx; ty; tz; - x; - y; - z; - w] =
  firstn 3 (se3_compose RS eps A [tx; ty; tz; x; y; z; w]) ++ @vneg RS (skipn 3 (se3_compose RS eps A [tx; ty; tz; x; y; z; w])).
Proof.
  intros (ax & ay & az & qx & qy & qz & qw & -> & Ha) Hz. unfold se3_compose, se3_rotation, se3_q, se3_t. cbn [vslice skipn firstn].
  assert (Hq : so3_valid [qx; qy; qz; qw]) by (exists qx, qy, qz, qw; split; [reflexivity|assumption]).
  pose proof (so3_compose_neg_r eps eps_pos [qx; qy; qz; qw] x y z w Hq Hz) as EN. cbn [K RS] in *. unfold Mat.vec in *. cbn [K RS] in *. rewrite EN.
  assert (HR : exists a1 a2 a3 a4 a5 a6 a7 a8 a9, so3_rotation RS [qx; qy; qz; qw] = [[a1; a2; a3]; [a4; a5; a6]; [a7; a8; a9]])
    by (unfold so3_rotation, quat_matrix; mat_unfold; do 9 eexists; reflexivity).
  destruct (mvmul3_shape _ [tx; ty; tz] HR) as (r0 & r1 & r2 & Er). cbn [K RS] in *. rewrite Er. cbn [vadd vmap2 app firstn skipn]. reflexivity.
Qed.

Theorem se3_slerp_one A B : se3_valid A -> se3_valid B ->
  (forall tx ty tz x y z w, se3_compose RS eps (se3_inverse RS A) B = [tx; ty; tz; x; y; z; w] -> eps < x * x + y * y + z * z /\ w <> 0) ->
  @interpolate_slerp RS G A B 1 = Ok B \/ @interpolate_slerp RS G A B 1 = Ok (firstn 3 B ++ @vneg RS (skipn 3 B)).
Proof.
  intros HA HB Hgen. unfold interpolate_slerp. rewrite in01_true by lra.
  unfold rplus_v, rminus_v, tscale. cbn [g_compose g_exp g_log g_inverse SE3].
  assert (HZ : se3_valid (se3_compose RS eps (se3_inverse RS A) B)).
  { apply (gc_compose_valid _ C); [apply (gc_inverse_valid _ C)|]; assumption. }
  assert (HAZ : se3_compose RS eps A (se3_compose RS eps (se3_inverse RS A) B) = B).
  { pose proof (gc_assoc _ C A (se3_inverse RS A) B HA (gc_inverse_valid _ C A HA) HB) as H1.
    pose proof (gc_inv_r _ C A HA) as H2. pose proof (gc_neutral_l _ C B HB) as H3.
    cbn [g_compose g_inverse SE3] in H1, H2, H3. rewrite <- H1, H2. exact H3. }
  destruct (se3_log_shape _ HZ) as (a & b & c & d & e & f & El).
  destruct HZ as (tx & ty & tz & x & y & z & w & EZ & Hn). destruct (Hgen tx ty tz x y z w EZ) as [Hs2 Hw]. rewrite EZ in *.
  rewrite El.
  assert (E1 : @vscale_r RS [a; b; c; d; e; f] 1 = [a; b; c; d; e; f]) by (unfold vscale_r; cbn [map]; cbn [K RS kmul]; match goal with |- @eq _ ?u ?v => change (@eq (list R) u v) end; list_eq; ring).
  rewrite E1, <- El. rewrite (se3_exp_log_generic eps eps_pos tx ty tz x y z w Hn Hs2 Hw). cbn [app].
  destruct (Rlt_dec w 0).
  - right. f_equal. rewrite (se3_compose_neg_r A tx ty tz x y z w HA Hn). rewrite HAZ. reflexivity.
  - left. f_equal. exact HAZ.
Qed.
End P.
