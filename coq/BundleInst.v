(* BundleInst.v — the group laws of C01 for Bundles over the reals: any list of element groups, each with its GroupCore
   (SO2Proofs ... RnProofs), gives a Bundle whose compose / inverse / Identity satisfy the group laws on the
   concatenations of valid element coefficient vectors (BundleLaws.v does the lifting). *)
From Coq Require Import Reals List Lia Lra.
From Manif Require Import Scalar Mat Group RInst Generic LieSpec Bundle BundleProofs BundleLaws
  SO2 SE2 SO3 SE3 SE23 SGal3 Rn SE2Proofs SO3Proofs SE23Proofs RnProofs.
Import ListNotations.
Local Open Scope R_scope.

Record Packed : Type := mkPacked {
  p_G : GroupOps RS;
  p_core : GroupCore p_G;
  p_size : forall X, gc_valid p_core X -> length X = g_rep p_G
}.

Section Packs.
Variable LP : list Packed.
Variable dP : Packed.
Let L := map p_G LP.
Let V (i : nat) (X : list R) : Prop := gc_valid (p_core (nth i LP dP)) X.
Let d := p_G dP.

Lemma nthL i : nth i L d = p_G (nth i LP dP).
Proof. unfold L, d. apply map_nth. Qed.

(* the statement of C01 on coefficient vectors, for the Bundle *)
Record BundleGroupLaws (B : GroupOps RS) (valid : list R -> Prop) : Prop := mkBL {
  bl_compose_valid : forall X Y, valid X -> valid Y -> valid (g_compose B X Y);
  bl_inverse_valid : forall X, valid X -> valid (g_inverse B X);
  bl_identity_valid : valid (g_identity B);
  bl_assoc : forall X Y Z, valid X -> valid Y -> valid Z -> g_compose B (g_compose B X Y) Z = g_compose B X (g_compose B Y Z);
  bl_neutral_l : forall X, valid X -> g_compose B (g_identity B) X = X;
  bl_neutral_r : forall X, valid X -> g_compose B X (g_identity B) = X;
  bl_inv_l : forall X, valid X -> g_compose B (g_inverse B X) X = g_identity B;
  bl_inv_r : forall X, valid X -> g_compose B X (g_inverse B X) = g_identity B
}.

Theorem bundle_laws_of_cores : BundleGroupLaws (Bundle L) (bvalid RS L V).
Proof.
  assert (Vs : forall i X, (i < length L)%nat -> V i X -> length X = g_rep (nth i L d)).
  { intros i X _ H. rewrite nthL. apply (p_size _ _ H). }
  assert (Vc : forall i X Y, (i < length L)%nat -> V i X -> V i Y -> V i (g_compose (nth i L d) X Y)).
  { intros i X Y _ HX HY. rewrite nthL. apply gc_compose_valid; assumption. }
  assert (Vi : forall i X, (i < length L)%nat -> V i X -> V i (g_inverse (nth i L d) X)).
  { intros i X _ HX. rewrite nthL. apply gc_inverse_valid; assumption. }
  assert (Vid : forall i, (i < length L)%nat -> V i (g_identity (nth i L d))).
  { intros i _. rewrite nthL. apply gc_identity_valid. }
  constructor.
  - exact (bundle_compose_valid RS L d V Vs Vc).
  - exact (bundle_inverse_valid RS L d V Vs Vi).
  - exact (bundle_identity_valid RS L d V Vs Vid).
  - apply (bundle_assoc RS L d V Vs Vc). intros i X Y Z _ HX HY HZ. rewrite nthL. apply (gc_assoc _ (p_core (nth i LP dP))); assumption.
  - apply (bundle_neutral_l RS L d V Vs Vc Vid). intros i X _ HX. rewrite nthL. apply (gc_neutral_l _ (p_core (nth i LP dP))); assumption.
  - apply (bundle_neutral_r RS L d V Vs Vc Vid). intros i X _ HX. rewrite nthL. apply (gc_neutral_r _ (p_core (nth i LP dP))); assumption.
  - apply (bundle_inv_l RS L d V Vs Vc Vi Vid). intros i X _ HX. rewrite nthL. apply (gc_inv_l _ (p_core (nth i LP dP))); assumption.
  - apply (bundle_inv_r RS L d V Vs Vc Vi Vid). intros i X _ HX. rewrite nthL. apply (gc_inv_r _ (p_core (nth i LP dP))); assumption.
Qed.
End Packs.

(* the packs of the seven group families *)
Ltac size_of_valid := let X := fresh "X" in let HV := fresh "HV" in intros X HV; cbn in HV; hnf in HV; repeat (match type of HV with ex _ => let x := fresh in destruct HV as [x HV] end); destruct HV as [-> _]; reflexivity.
Definition SO2_pack eps (H : 0 < eps) : Packed. Proof. refine (mkPacked (SO2 RS eps) (SO2_core eps H) _). size_of_valid. Defined.
Definition SE2_pack eps (H : 0 < eps) : Packed. Proof. refine (mkPacked (SE2 RS eps) (SE2_core eps H) _). size_of_valid. Defined.
Definition SO3_pack eps (H : 0 < eps) : Packed. Proof. refine (mkPacked (SO3 RS eps) (SO3_core eps H) _). size_of_valid. Defined.
Definition SE3_pack eps (H : 0 < eps) : Packed. Proof. refine (mkPacked (SE3 RS eps) (SE3_core eps H) _). size_of_valid. Defined.
Definition SE23_pack eps (H : 0 < eps) : Packed. Proof. refine (mkPacked (SE23 RS eps) (SE23_core eps H) _). size_of_valid. Defined.
Definition SGal3_pack eps (H : 0 < eps) : Packed. Proof. refine (mkPacked (SGal3 RS eps) (SGal3_core eps H) _). size_of_valid. Defined.
Definition R1_pack : Packed. Proof. refine (mkPacked (Rn RS 1) R1_core _). intros X H. exact H. Defined.
Definition R2_pack : Packed. Proof. refine (mkPacked (Rn RS 2) R2_core _). intros X H. exact H. Defined.
Definition R3_pack : Packed. Proof. refine (mkPacked (Rn RS 3) R3_core _). intros X H. exact H. Defined.
Definition R5_pack : Packed. Proof. refine (mkPacked (Rn RS 5) R5_core _). intros X H. exact H. Defined.
