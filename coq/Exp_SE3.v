(* Exp_SE3.v — C02 for SE3: above the small-angle threshold the homogeneous matrix of the model's exp (quaternion through
   angle-axis, translation V(theta) rho with V = so3 left Jacobian, as the code does) is the matrix exponential of hat.
   Method (Ode.v): G(s) = [R(s), V(s) s rho; 0, 1] along the ray s*t solves G' = G * hat(t), G(0) = I. *)
From Coq Require Import Reals ZArith List Lra Lia.
From Coquelicot Require Import Coquelicot.
From Manif Require Import Scalar Mat Consts Group RInst Tac SO2 SO3 SE3 Generic LieSpec Ode ExpSpec AlgTac Exp_SO3 JacInv_SO3 AdjExp_SO3.
Import ListNotations.
Local Open Scope R_scope.

Ltac ij4 i j := destruct i as [|[|[|[|i]]]]; destruct j as [|[|[|[|j]]]].

Section SE3.
Variables a b c x y z phi : R.
Hypothesis Hphi : phi <> 0.
Hypothesis Hphi2 : phi * phi = x * x + y * y + z * z.
Local Notation S := (Sf phi).
Local Notation C := (Cf phi).
Definition Df (s : R) := (s - Sf phi s) / (phi * phi).
(* every entry of G is  k0 + k1 s + k2 Sf s + k3 Cf s + k4 Df s *)
Definition aff (k0 k1 k2 k3 k4 s : R) : R := k0 + k1 * s + k2 * S s + k3 * C s + k4 * Df s.

Lemma dD s : is_derive Df s (C s).
Proof. unfold Df, Sf, Cf. auto_derive; [exact I|]. field. exact Hphi. Qed.
Lemma der_aff5 k0 k1 k2 k3 k4 s d : d = k1 + k2 * (1 - (x * x + y * y + z * z) * C s) + k3 * S s + k4 * C s ->
  is_derive (aff k0 k1 k2 k3 k4) s d.
Proof.
  intros ->. unfold aff.
  replace (k1 + k2 * (1 - (x * x + y * y + z * z) * C s) + k3 * S s + k4 * C s)
    with (0 + k1 * 1 + k2 * (1 - (x * x + y * y + z * z) * C s) + k3 * S s + k4 * C s) by ring.
  repeat apply @is_derive_plus.
  - apply @is_derive_const.
  - apply is_derive_scal. apply @is_derive_id.
  - apply is_derive_scal. apply (dS x y z phi Hphi Hphi2).
  - apply is_derive_scal. apply (dC phi Hphi).
  - apply is_derive_scal. apply dD.
Qed.

(* W rho and W^2 rho for W = hat of (x, y, z), rho = (a, b, c) *)
Definition w1 : R * R * R := (- z * b + y * c, z * a - x * c, - y * a + x * b).
Definition w2 : R * R * R :=
  let '(p, q, r) := w1 in (- z * q + y * r, z * p - x * r, - y * p + x * q).

Definition Hse3 : list (list R) := [[0; - z; y; a]; [z; 0; - x; b]; [- y; x; 0; c]; [0; 0; 0; 0]].
Definition Gse3 (s : R) : list (list R) :=
  let '(p1, q1, r1) := w1 in let '(p2, q2, r2) := w2 in
  [[aff 1 0 0 (- (y * y + z * z)) 0 s; aff 0 0 (- z) (x * y) 0 s; aff 0 0 y (x * z) 0 s; aff 0 a 0 p1 p2 s];
   [aff 0 0 z (x * y) 0 s; aff 1 0 0 (- (x * x + z * z)) 0 s; aff 0 0 (- x) (y * z) 0 s; aff 0 b 0 q1 q2 s];
   [aff 0 0 (- y) (x * z) 0 s; aff 0 0 x (y * z) 0 s; aff 1 0 0 (- (x * x + y * y)) 0 s; aff 0 c 0 r1 r2 s];
   [aff 0 0 0 0 0 s; aff 0 0 0 0 0 s; aff 0 0 0 0 0 s; aff 1 0 0 0 0 s]].

Lemma Gse3_ode s i j : is_derive (fun s => fmat 3 (Gse3 s) i j) s (mmul 3 (fmat 3 (Gse3 s)) (fmat 3 Hse3) i j).
Proof.
  unfold mmul. rewrite !sum_Sn, sum_O. unfold Hierarchy.plus; simpl.
  ij4 i j; unfold fmat, Gse3, Hse3, w2, w1; cbn [Nat.leb andb mnth nth];
  try (apply is_derive_ext with (f := fun _ => 0); [reflexivity|];
       match goal with |- is_derive _ _ ?d => replace d with 0 by ring end; apply @is_derive_const).
  all: apply der_aff5; unfold aff; ring.
Qed.

Lemma se3_matexp : MatExp 3 Hse3 (Gse3 1).
Proof.
  intros i j Hi Hj.
  apply (ode_matexp 3 (fmat 3 Hse3) (fun s => fmat 3 (Gse3 s))) with (a := Rabs x + Rabs y + Rabs z + Rabs a + Rabs b + Rabs c); try assumption.
  - intros i' j' Hi'. unfold fmat, Gse3, w2, w1, mid, aff, Df, Sf, Cf. rewrite !Rmult_0_l, cos_0, sin_0.
    ij4 i' j'; cbn [Nat.leb andb mnth nth Nat.eqb]; try reflexivity; try lia; field; exact Hphi.
  - apply Gse3_ode.
  - intros i' j'. unfold fmat, Hse3.
    assert (Hx := Rabs_pos x). assert (Hy := Rabs_pos y). assert (Hz := Rabs_pos z).
    assert (Ha := Rabs_pos a). assert (Hb := Rabs_pos b). assert (Hc := Rabs_pos c).
    ij4 i' j'; cbn [Nat.leb andb mnth nth]; rewrite ?Rabs_Ropp, ?Rabs_R0; lra.
Qed.
End SE3.

(* ---- the model's exp, above the threshold, has exactly this homogeneous matrix ---- *)
Theorem SE3_exp_matexp eps a b c x y z : 0 < eps -> eps < x * x + y * y + z * z ->
  MatExp 3 (g_hat (SE3 RS eps) [a; b; c; x; y; z]) (g_transform (SE3 RS eps) (g_exp (SE3 RS eps) [a; b; c; x; y; z])).
Proof.
  intros He Hgt.
  set (n := x * x + y * y + z * z) in *.
  assert (Hn : 0 < n) by lra.
  set (phi := sqrt n).
  assert (Hphi : phi <> 0) by (unfold phi; intros H0; apply sqrt_eq_0 in H0; lra).
  assert (Hphi2 : phi * phi = x * x + y * y + z * z) by (unfold phi; rewrite sqrt_sqrt by lra; reflexivity).
  assert (Hh : g_hat (SE3 RS eps) [a; b; c; x; y; z] = Hse3 a b c x y z) by (rcbv; list_eq; ring).
  assert (Hx : g_transform (SE3 RS eps) (g_exp (SE3 RS eps) [a; b; c; x; y; z]) = Gse3 a b c x y z phi 1).
  { cbn [g_transform g_exp SE3]. unfold se3_exp, se3t_ang, se3t_lin. cbn [skipn firstn].
    pose proof (so3_exp_rodrigues eps He x y z Hgt) as ER. pose proof (so3_ljac_poly eps x y z Hgt) as EL. cbv zeta in ER, EL.
    fold n in ER, EL. fold phi in ER, EL.
    assert (Hq : exists q0 q1 q2 q3, so3_exp RS eps [x; y; z] = [q0; q1; q2; q3]).
    { unfold so3_exp. destruct (kgtb _ _); [|do 4 eexists; reflexivity].
      unfold quat_of_angle_axis, eigen_normalized. destruct (kgtb _ _); do 4 eexists; reflexivity. }
    destruct Hq as (q0 & q1 & q2 & q3 & Eq). rewrite Eq in ER |- *. rewrite EL.
    unfold se3_transform, se3_rotation, se3_q, se3_t.
    match goal with |- context [@mvmul RS ?M ?r] =>
      assert (Hm : @mvmul RS M r = [@dot RS (nth 0 M []) r; @dot RS (nth 1 M []) r; @dot RS (nth 2 M []) r])
        by (unfold poly3; mat_unfold; reflexivity) end.
    rewrite Hm. cbn [app vslice skipn firstn]. rewrite ER.
    unfold Gse3, w2, w1, aff, Df, Sf, Cf, poly3. rewrite !Rmult_1_l. mat_unfold. unfold n. rewrite <- Hphi2.
    match goal with |- @eq _ ?u ?v => change (@eq (list (list R)) u v) end.
    assert (Hpp : phi * phi <> 0) by nra.
    list_eq; field_simplify_eq; try (repeat split; assumption); try exact Hphi; try ring. }
  rewrite Hh, Hx. apply se3_matexp; assumption.
Qed.
