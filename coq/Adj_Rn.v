(* Adj_Rn.v — AdjLaws (property C06, algebraic part) for the Rn models R1..R9. *)
From Coq Require Import Reals ZArith List Lra.
From Manif Require Import Scalar Mat Consts Group RInst Tac Rn Generic LieSpec RnProofs AlgTac AdjTac.
Import ListNotations.
Local Open Scope R_scope.

Ltac rn_adj :=
  constructor; unfold g_matrep, rn_valid;
  [ intros X s HX Hs; destruct_len X HX; destruct_len s Hs; rcbv; list_eq; ring
  | intros X Y HX HY; rcbv; list_eq; ring
  | rcbv; list_eq; ring
  | intros X HX; rcbv; list_eq; ring
  | intros t s Ht Hs; destruct_len t Ht; destruct_len s Hs; rcbv; list_eq; ring
  | intros t Ht; reflexivity ].
Lemma R1_adj : AdjLaws (Rn RS 1) (rn_valid 1). Proof. rn_adj. Qed.
Lemma R2_adj : AdjLaws (Rn RS 2) (rn_valid 2). Proof. rn_adj. Qed.
Lemma R3_adj : AdjLaws (Rn RS 3) (rn_valid 3). Proof. rn_adj. Qed.
Lemma R4_adj : AdjLaws (Rn RS 4) (rn_valid 4). Proof. rn_adj. Qed.
Lemma R5_adj : AdjLaws (Rn RS 5) (rn_valid 5). Proof. rn_adj. Qed.
Lemma R6_adj : AdjLaws (Rn RS 6) (rn_valid 6). Proof. rn_adj. Qed.
Lemma R7_adj : AdjLaws (Rn RS 7) (rn_valid 7). Proof. rn_adj. Qed.
Lemma R8_adj : AdjLaws (Rn RS 8) (rn_valid 8). Proof. rn_adj. Qed.
Lemma R9_adj : AdjLaws (Rn RS 9) (rn_valid 9). Proof. rn_adj. Qed.
