(* Properties_C11.v — property C11: a Bundle is the direct product of its element groups.  For ANY list of groups
   and ANY scalar (the statements are about the scalar-generic model Bundle.v, which is written as the code is: offset
   tables computed by the template recursion of traits.h, pack-expansion loops writing blocks at those offsets):
   - the offset tables DimIdx / DoFIdx / RepSizeIdx / TraIdx / AlgIdx are the prefix sums of the element sizes;
   - element<i>() is the view of RepSize_i (DoF_i) coefficients at that offset;
   - building an element / tangent / vector from parts of the right sizes is the concatenation of the parts, so every
     operation is the element operation applied independently to each element and placed at its offset;
   - every Jacobian-like matrix (adj, rjac, ..., the Jacobians of inverse / log / exp / compose / act, hat, transform)
     has the element's matrix on the diagonal block and EXACT zeros everywhere else. *)
From Coq Require Import ZArith List Lia.
From Manif Require Import Scalar Mat Group Bundle BundleProofs.
Import ListNotations.

Theorem C11_offsets sizes k : (k < length sizes)%nat -> nth k (compute_indices sizes) 0%nat = accumulate (firstn k sizes).
Proof. exact (offsets_are_prefix_sums sizes k). Qed.
Theorem C11_offsets_all sizes : compute_indices sizes = prefix 0 sizes.
Proof. exact (compute_indices_prefix sizes). Qed.

Theorem C11_element_alias (F : Sc) (L : list (GroupOps F)) X k G : (k < length L)%nat ->
  el L X k G = vslice X (accumulate (firstn k (map g_rep L))) (g_rep G).
Proof. intros H. unfold el. rewrite (idx_off F L g_rep k H). reflexivity. Qed.
Theorem C11_tangent_element_alias (F : Sc) (L : list (GroupOps F)) t k G : (k < length L)%nat ->
  tel L t k G = vslice t (accumulate (firstn k (map g_dof L))) (g_dof G).
Proof. intros H. unfold tel. rewrite (idx_off F L g_dof k H). reflexivity. Qed.

Theorem C11_assemble (F : Sc) (L : list (GroupOps F)) (f : GroupOps F -> nat) (parts : list (list (K F))) :
  map (@length (K F)) parts = map f L -> assemble L f parts = concat parts.
Proof. exact (assemble_is_concat F L f parts). Qed.

(* e.g. compose: the concatenation of the element-wise compositions of the element views *)
Theorem C11_compose (F : Sc) (L : list (GroupOps F)) X Y :
  map (@length (K F)) (imap L (fun i G => g_compose G (el L X i G) (el L Y i G))) = map g_rep L ->
  g_compose (Bundle L) X Y = concat (imap L (fun i G => g_compose G (el L X i G) (el L Y i G))).
Proof. intros H. exact (assemble_is_concat F L g_rep _ H). Qed.
Theorem C11_exp (F : Sc) (L : list (GroupOps F)) t :
  map (@length (K F)) (imap L (fun i G => g_exp G (tel L t i G))) = map g_rep L ->
  g_exp (Bundle L) t = concat (imap L (fun i G => g_exp G (tel L t i G))).
Proof. intros H. exact (assemble_is_concat F L g_rep _ H). Qed.
Theorem C11_log (F : Sc) (L : list (GroupOps F)) X :
  map (@length (K F)) (imap L (fun i G => g_log G (el L X i G))) = map g_dof L ->
  g_log (Bundle L) X = concat (imap L (fun i G => g_log G (el L X i G))).
Proof. intros H. exact (assemble_is_concat F L g_dof _ H). Qed.

(* block-diagonal structure: exact zeros off the blocks, the element's matrix on the k-th block *)
Theorem C11_zero_off_blocks (F : Sc) (L : list (GroupOps F)) fr fc blocks i j : block_ok F L fr fc blocks ->
  (forall k, (k < length L)%nat -> ~ in_block F L fr fc k i j) -> mnth (place L fr fc blocks) i j = k0 F.
Proof. exact (place_zero_off_blocks F L fr fc blocks i j). Qed.
Theorem C11_diag_block (F : Sc) (L : list (GroupOps F)) fr fc blocks k i j : block_ok F L fr fc blocks ->
  (k < length L)%nat -> in_block F L fr fc k i j ->
  mnth (place L fr fc blocks) i j = mnth (nth k blocks []) (i - off F L fr k) (j - off F L fc k).
Proof. exact (place_diag_block F L fr fc blocks k i j). Qed.
(* instances of `place`: the Bundle's adjoint and right Jacobian (all the others are the same definition) *)
Theorem C11_adj_is_place (F : Sc) (L : list (GroupOps F)) X : g_adj (Bundle L) X = place L g_dof g_dof (imap L (fun i G => g_adj G (el L X i G))).
Proof. reflexivity. Qed.
Theorem C11_rjac_is_place (F : Sc) (L : list (GroupOps F)) t : g_rjac (Bundle L) t = place L g_dof g_dof (imap L (fun i G => g_rjac G (tel L t i G))).
Proof. reflexivity. Qed.
Theorem C11_act_Jm_is_place (F : Sc) (L : list (GroupOps F)) X v :
  g_act_Jm (Bundle L) X v = place L g_dim g_dof (imap L (fun i G => g_act_Jm G (el L X i G) (vslice v (idx L g_dim i) (g_dim G)))).
Proof. reflexivity. Qed.
Theorem C11_transform_is_place (F : Sc) (L : list (GroupOps F)) X : g_transform (Bundle L) X = place L g_tra g_tra (imap L (fun i G => g_transform G (el L X i G))).
Proof. reflexivity. Qed.
Print Assumptions C11_diag_block.

(* non-vacuity: the offsets of a layout with pairwise different sizes, by the template recursion *)
Example C11_offsets_example : compute_indices [2; 7; 5; 11]%nat = [0; 2; 9; 14]%nat /\ compute_indices [3]%nat = [0]%nat.
Proof. split; reflexivity. Qed.
