(* Sym_SGal3.v — property C18 for SGal(3): isApprox is symmetric whenever the relative element is on the closed-form branch of
   log and not a half turn: log(Z^-1) = -log(Z).  Velocity and rotation as for SE_2(3); the position block needs, for
   w = log q, R = R(q), m any vector:  R^T (Jl(w) m) - E(-w) m = R^T (E(w) m)   (E = fillE), a polynomial identity in hat(w). *)
From Coq Require Import Reals ZArith List Lra Psatz.
From Manif Require Import Scalar Mat Consts Group RInst Tac Atan2 SO3 SE3 SE23 SGal3 Generic LieSpec SO3Proofs SE23Proofs Log_SO3 JacInv_SO3 AdjExp_SO3 Log_SE3 Log_SE23
  Approx Approx_Inst QuatOfMatrix LogExp_SE3 LogExp_SGal3 Sym_SE3.
Import ListNotations.
Local Open Scope R_scope.

Ltac veq := match goal with |- @eq _ ?u ?v => change (@eq (list R) u v) end; list_eq.

(* E as a polynomial in W = hat(x, y, z):  1/2 I + A W + B W^2 *)
Definition Epol (x y z A B : R) : list (list R) :=
  @madd RS (SGal3.I33 RS (1 / 2)) (@madd RS (@mscale RS A (@skew3 RS [x; y; z])) (@mmul RS (@mscale RS B (@skew3 RS [x; y; z])) (@skew3 RS [x; y; z]))).
Lemma Epol_negv x y z A B : Epol (- x) (- y) (- z) A B = Epol x y z (- A) B.
Proof. unfold Epol, SGal3.I33. mat_unfold. meq; ring. Qed.
Lemma Epol_shape x y z A B : exists a1 a2 a3 a4 a5 a6 a7 a8 a9, Epol x y z A B = [[a1; a2; a3]; [a4; a5; a6]; [a7; a8; a9]].
Proof. unfold Epol, SGal3.I33. mat_unfold. do 9 eexists. reflexivity. Qed.
Lemma poly3_shape x y z p q : exists a1 a2 a3 a4 a5 a6 a7 a8 a9, poly3 x y z p q = [[a1; a2; a3]; [a4; a5; a6]; [a7; a8; a9]].
Proof. unfold poly3. mat_unfold. do 9 eexists. reflexivity. Qed.
(* (I + p W + q W^2)(1/2 I + A W + B W^2) *)
Lemma poly3_Epol_mul x y z p q A B :
  let th2 := x * x + y * y + z * z in
  @mmul RS (poly3 x y z p q) (Epol x y z A B) = Epol x y z (A + p / 2 - th2 * (p * B + q * A)) (B + q / 2 + p * A - th2 * (q * B)).
Proof. cbv zeta. unfold poly3, Epol, SGal3.I33. mat_unfold. meq; field. Qed.

(* both kinds of matrix applied to a vector, in the basis (m, W m, W^2 m) *)
Definition Wv (x y z m0 m1 m2 : R) : R * R * R := (- z * m1 + y * m2, z * m0 - x * m2, - y * m0 + x * m1).
Lemma mvmul_poly3_lin x y z p q m0 m1 m2 :
  let '(u0, u1, u2) := Wv x y z m0 m1 m2 in let '(s0, s1, s2) := Wv x y z u0 u1 u2 in
  @mvmul RS (poly3 x y z p q) [m0; m1; m2] = [m0 + p * u0 + q * s0; m1 + p * u1 + q * s1; m2 + p * u2 + q * s2].
Proof. unfold Wv, poly3. mat_unfold. veq; ring. Qed.
Lemma mvmul_Epol_lin x y z A B m0 m1 m2 :
  let '(u0, u1, u2) := Wv x y z m0 m1 m2 in let '(s0, s1, s2) := Wv x y z u0 u1 u2 in
  @mvmul RS (Epol x y z A B) [m0; m1; m2] = [m0 / 2 + A * u0 + B * s0; m1 / 2 + A * u1 + B * s1; m2 / 2 + A * u2 + B * s2].
Proof. unfold Wv, Epol, SGal3.I33. mat_unfold. veq; field. Qed.

Lemma sg_coeff_identities th S C : th <> 0 -> S * S + C * C = 1 ->
  let th2 := th * th in let g1 := S / th in let g2 := (1 - C) / th2 in let g3 := (th - S) / (th2 * th) in
  let A := (th - S) / th2 / th in let B := (th2 + 2 * C - 2) / (2 * th2 * th2) in
  - g1 + g2 - th2 * (- g1 * g3 + g2 * g2) + A = A + - g1 / 2 - th2 * (- g1 * B + g2 * A) /\
  g2 + g3 + - g1 * g2 - th2 * (g2 * g3) - B = B + g2 / 2 + - g1 * A - th2 * (g2 * B).
Proof.
  intros Hth H. cbv zeta. assert (HS2 : S * S = 1 - C * C) by lra. split.
  - field_simplify_eq; [|assumption]. replace (S ^ 2) with (1 - C * C) by (rewrite <- HS2; ring). ring.
  - field_simplify_eq; [|assumption]. replace (S ^ 2) with (1 - C * C) by (rewrite <- HS2; ring). ring.
Qed.

(* the core identity, for coefficients satisfying the two scalar identities *)
Lemma sg_core x y z g1 g2 g3 A B m0 m1 m2 :
  let th2 := x * x + y * y + z * z in
  - g1 + g2 - th2 * (- g1 * g3 + g2 * g2) + A = A + - g1 / 2 - th2 * (- g1 * B + g2 * A) ->
  g2 + g3 + - g1 * g2 - th2 * (g2 * g3) - B = B + g2 / 2 + - g1 * A - th2 * (g2 * B) ->
  @vsub RS (@mvmul RS (poly3 x y z (- g1) g2) (@mvmul RS (poly3 x y z g2 g3) [m0; m1; m2])) (@mvmul RS (Epol x y z (- A) B) [m0; m1; m2]) =
  @mvmul RS (poly3 x y z (- g1) g2) (@mvmul RS (Epol x y z A B) [m0; m1; m2]).
Proof.
  cbv zeta. intros I1 I2.
  rewrite !mvmul_mmul3 by (first [apply poly3_shape | apply Epol_shape | do 3 eexists; reflexivity]).
  rewrite poly3_mul, poly3_Epol_mul. cbv zeta.
  set (k1 := - g1 + g2 - (x * x + y * y + z * z) * (- g1 * g3 + g2 * g2)) in *.
  set (k2 := g2 + g3 + - g1 * g2 - (x * x + y * y + z * z) * (g2 * g3)) in *.
  set (e1 := A + - g1 / 2 - (x * x + y * y + z * z) * (- g1 * B + g2 * A)) in *.
  set (e2 := B + g2 / 2 + - g1 * A - (x * x + y * y + z * z) * (g2 * B)) in *.
  pose proof (mvmul_poly3_lin x y z k1 k2 m0 m1 m2) as L1. pose proof (mvmul_Epol_lin x y z (- A) B m0 m1 m2) as L2.
  pose proof (mvmul_Epol_lin x y z e1 e2 m0 m1 m2) as L3.
  destruct (Wv x y z m0 m1 m2) as [[u0 u1] u2]. destruct (Wv x y z u0 u1 u2) as [[s0 s1] s2].
  cbn [K RS] in *. unfold Mat.vec in *. cbn [K RS] in *. rewrite L1, L2, L3. cbn [vsub vmap2]. cbn [ksub RS].
  assert (Hk1 : k1 = e1 - A) by lra. assert (Hk2 : k2 = e2 + B) by lra. rewrite Hk1, Hk2. veq; field.
Qed.

Section P.
Variable eps : R.
Hypothesis eps_pos : 0 < eps.

Lemma fillE_generic a b c : eps < a * a + b * b + c * c ->
  let n := a * a + b * b + c * c in let th := sqrt n in
  fillE RS eps [a; b; c] = Epol a b c ((th - sin th) / n / th) ((n + 2 * cos th - 2) / (2 * n * n)).
Proof.
  intros Hgt. cbv zeta. set (n := a * a + b * b + c * c) in *. set (th := sqrt n).
  unfold fillE, Epol. assert (Hsq : @sqnorm RS [a; b; c] = n) by (unfold n; mat_unfold; ring). rewrite Hsq.
  cbn [kltb RS]. rewrite (Rltb_lt_false n eps) by lra. cbn [ksqrt ksin kcos RS]. fold th. unfold c_half, kz. cbn.
  repeat f_equal; try field; try lra.
Qed.

(* R(conj q) as a polynomial in hat(w), w = log q *)
Lemma rot_conj_poly x y z w a b c : n4 x y z w = 1 -> eps < x * x + y * y + z * z -> w <> 0 -> so3_log RS eps [x; y; z; w] = [a; b; c] ->
  let n := a * a + b * b + c * c in let th := sqrt n in
  so3_rotation RS [- x; - y; - z; w] = poly3 a b c (- (sin th / th)) ((1 - cos th) / n).
Proof.
  intros Hn Hs2 Hw Hl0. cbv zeta. destruct (so3_log_round eps eps_pos x y z w Hn Hs2 Hw) as (a' & b' & c' & Hl & Hbig & HJ & He). cbn [K RS] in *.
  rewrite Hl0 in Hl. injection Hl as <- <- <-.
  rewrite rotation_conj.
  assert (ER : so3_rotation RS [x; y; z; w] = poly3 a b c (sin (sqrt (a * a + b * b + c * c)) / sqrt (a * a + b * b + c * c)) ((1 - cos (sqrt (a * a + b * b + c * c))) / (a * a + b * b + c * c))).
  { rewrite <- (so3_exp_rodrigues eps eps_pos a b c Hbig). rewrite He. destruct (Rlt_dec w 0); [|reflexivity]. unfold so3_rotation. symmetry. apply quat_matrix_neg. }
  rewrite ER, mT_poly3. reflexivity.
Qed.

Lemma mvmul_scale3 (M : list (list R)) t v0 v1 v2 :
  (exists a1 a2 a3 a4 a5 a6 a7 a8 a9, M = [[a1; a2; a3]; [a4; a5; a6]; [a7; a8; a9]]) ->
  @mvmul RS M [t * v0; t * v1; t * v2] = @vscale RS t (@mvmul RS M [v0; v1; v2]).
Proof. intros (a1 & a2 & a3 & a4 & a5 & a6 & a7 & a8 & a9 & ->). mat_unfold. veq; ring. Qed.

Theorem sg_log_inverse_generic px py pz x y z w vx vy vz t : n4 x y z w = 1 -> eps < x * x + y * y + z * z -> w <> 0 ->
  sg_log RS eps (sg_inverse RS [px; py; pz; x; y; z; w; vx; vy; vz; t]) = @vneg RS (sg_log RS eps [px; py; pz; x; y; z; w; vx; vy; vz; t]).
Proof.
  intros Hn Hs2 Hw. destruct (so3_log_round eps eps_pos x y z w Hn Hs2 Hw) as (a & b & c & Hl & Hbig & HJ & _). cbn [K RS] in *.
  pose proof (log_sin_ne eps eps_pos x y z w Hn Hs2 Hw a b c Hl) as HS.
  pose proof (rot_conj_poly x y z w a b c Hn Hs2 Hw Hl) as ERc. cbv zeta in ERc.
  pose proof (fillE_generic a b c Hbig) as EE. cbv zeta in EE.
  assert (Hnegbig : eps < - a * - a + - b * - b + - c * - c) by (replace (- a * - a + - b * - b + - c * - c) with (a * a + b * b + c * c) by ring; exact Hbig).
  pose proof (fillE_generic (- a) (- b) (- c) Hnegbig) as EEn. cbv zeta in EEn.
  replace (- a * - a + - b * - b + - c * - c) with (a * a + b * b + c * c) in EEn by ring. rewrite Epol_negv in EEn.
  pose proof (so3_ljac_poly eps a b c Hbig) as EJ. cbv zeta in EJ.
  set (n := a * a + b * b + c * c) in *. set (th := sqrt n) in *.
  assert (Hn0 : 0 < n) by lra. assert (Hth : 0 < th) by (apply sqrt_lt_R0; exact Hn0). assert (Hsq : th * th = n) by (apply sqrt_sqrt; lra).
  assert (Hsc : sin th * sin th + cos th * cos th = 1) by (replace (sin th * sin th + cos th * cos th) with ((sin th)² + (cos th)²) by (unfold Rsqr; ring); apply sin2_cos2).
  destruct (sg_coeff_identities th (sin th) (cos th) ltac:(lra) Hsc) as [I1 I2]. cbv zeta in I1, I2. rewrite Hsq in I1, I2.
  set (g1 := sin th / th) in *. set (g2 := (1 - cos th) / n) in *. set (g3 := (th - sin th) / (n * th)) in *.
  set (A := (th - sin th) / n / th) in *. set (B := (n + 2 * cos th - 2) / (2 * n * n)) in *.
  (* shapes *)
  assert (HA : exists a1 a2 a3 a4 a5 a6 a7 a8 a9, so3_ljacinv RS eps [a; b; c] = [[a1; a2; a3]; [a4; a5; a6]; [a7; a8; a9]])
    by (rewrite (so3_ljacinv_poly eps a b c Hbig); cbv zeta; apply poly3_shape).
  assert (HB : exists a1 a2 a3 a4 a5 a6 a7 a8 a9, so3_ljac RS eps [a; b; c] = [[a1; a2; a3]; [a4; a5; a6]; [a7; a8; a9]])
    by (rewrite EJ; apply poly3_shape).
  assert (HRq : exists a1 a2 a3 a4 a5 a6 a7 a8 a9, so3_rotation RS [- x; - y; - z; w] = [[a1; a2; a3]; [a4; a5; a6]; [a7; a8; a9]])
    by (rewrite ERc; apply poly3_shape).
  (* nu = V^-1 v, m = t nu, v = V nu *)
  destruct (mvmul3_shape _ [vx; vy; vz] HA) as (n0 & n1 & n2 & En).
  assert (EV : @mvmul RS (so3_ljac RS eps [a; b; c]) [n0; n1; n2] = [vx; vy; vz]).
  { cbn [K RS] in *. rewrite <- En. rewrite mvmul_mmul3 by (first [exact HA | exact HB | do 3 eexists; reflexivity]). rewrite HJ. apply mid3_mvmul. }
  (* the blocks of the inverse *)
  pose proof (ljacinv_conj_block eps eps_pos x y z w a b c vx vy vz Hn Hs2 Hw Hl) as EBv.
  destruct (mvmul3_shape _ [t * n0; t * n1; t * n2] (fillE_shape eps a b c)) as (e0 & e1 & e2 & Ee).
  pose proof (ljacinv_conj_block eps eps_pos x y z w a b c (px - e0) (py - e1) (pz - e2) Hn Hs2 Hw Hl) as EBp.
  pose proof (sg_core a b c g1 g2 g3 A B (t * n0) (t * n1) (t * n2) I1 I2) as CL.
  rewrite <- ERc, <- EJ, <- EE, <- EEn in CL. cbn [K RS] in *. unfold Mat.vec in *. cbn [K RS] in *.
  rewrite (mvmul_scale3 _ t n0 n1 n2 HB) in CL. rewrite EV in CL. rewrite Ee in CL.
  destruct (mvmul3_shape _ [t * n0; t * n1; t * n2] (fillE_shape eps (- a) (- b) (- c))) as (f0 & f1 & f2 & Ef). cbn [K RS] in *. rewrite Ef in CL.
  destruct HRq as (r1 & r2 & r3 & r4 & r5 & r6 & r7 & r8 & r9 & ERq). rewrite ERq in CL, EBv, EBp.
  (* unfold the inverse and its log *)
  unfold sg_inverse, sg_q, sg_p, sg_v, sg_t. cbv zeta. cbn [vslice skipn firstn vnth nth]. rewrite so3_inverse_eq. unfold so3_act. cbn [K RS] in *. rewrite ERq.
  unfold sg_log, sg_q, sg_p, sg_v, sg_t. cbv zeta.
  destruct (mvmul3_shape [[r1; r2; r3]; [r4; r5; r6]; [r7; r8; r9]] [px; py; pz]) as (P0 & P1 & P2 & EP); [do 9 eexists; reflexivity|].
  destruct (mvmul3_shape [[r1; r2; r3]; [r4; r5; r6]; [r7; r8; r9]] [vx; vy; vz]) as (V0 & V1 & V2 & EVv); [do 9 eexists; reflexivity|].
  cbn [K RS] in *. unfold Mat.vec in *. cbn [K RS] in *. rewrite EP, EVv. rewrite EVv in EBv.
  cbn [vneg vscale vadd map vmap2 app vslice firstn skipn vnth nth]. cbn [K RS kopp kmul kadd].
  rewrite (so3_log_conj eps x y z w), Hl. change (@vneg RS [a; b; c]) with [- a; - b; - c].
  cbn [vneg map] in EBv. cbn [K RS kopp] in EBv. rewrite EBv, En. cbn [vneg vscale map]. cbn [K RS kopp kmul].
  replace (- t * - n0) with (t * n0) by ring. replace (- t * - n1) with (t * n1) by ring. replace (- t * - n2) with (t * n2) by ring.
  rewrite Ef, Ee. cbn [vsub vmap2]. cbn [K RS ksub].
  assert (Hvec : [- P0 + t * V0 - f0; - P1 + t * V1 - f1; - P2 + t * V2 - f2] =
                 @vneg RS (@mvmul RS [[r1; r2; r3]; [r4; r5; r6]; [r7; r8; r9]] [px - e0; py - e1; pz - e2])).
  { rewrite (mvmul_scale3 _ t vx vy vz) in CL by (do 9 eexists; reflexivity). rewrite EVv in CL.
    revert CL EP. mat_unfold. intros CL EP. injection CL as C0 C1 C2. injection EP as Q0 Q1 Q2. veq; lra. }
  cbn [K RS] in *. unfold Mat.vec in *. cbn [K RS] in *. rewrite Hvec, EBp.
  destruct (mvmul3_shape _ [px - e0; py - e1; pz - e2] HA) as (o0 & o1 & o2 & Eo). cbn [K RS] in *. rewrite Eo.
  cbn [vneg map app]. reflexivity.
Qed.

Theorem sg_isApprox_sym X Y e : sg_valid X -> sg_valid Y -> 0 < e ->
  (forall px py pz x y z w vx vy vz t, g_compose (SGal3 RS eps) (g_inverse (SGal3 RS eps) Y) X = [px; py; pz; x; y; z; w; vx; vy; vz; t] -> eps < x * x + y * y + z * z /\ w <> 0) ->
  g_isApprox (SGal3 RS eps) X Y e = g_isApprox (SGal3 RS eps) Y X e.
Proof.
  intros HX HY He Hgen. pose (C := SGal3_core eps eps_pos).
  assert (HZ : sg_valid (g_compose (SGal3 RS eps) (g_inverse (SGal3 RS eps) Y) X)).
  { apply (gc_compose_valid _ C); [apply (gc_inverse_valid _ C)|]; assumption. }
  destruct HZ as (px & py & pz & x & y & z & w & vx & vy & vz & t & E & Hn). destruct (Hgen px py pz x y z w vx vy vz t E) as [Hs2 Hw].
  apply (g_isApprox_sym _ C); try assumption.
  - unfold rminus_val. rewrite E. cbn [g_log SGal3 g_dof]. unfold sg_log, sg_q, sg_p, sg_v, sg_t. cbv zeta. cbn [vslice skipn firstn vnth nth].
    destruct (so3_log_round eps eps_pos x y z w Hn Hs2 Hw) as (a & b & c & Hl & Hbig & _ & _). cbn [K RS] in *. rewrite Hl.
    assert (HA : exists a1 a2 a3 a4 a5 a6 a7 a8 a9, so3_ljacinv RS eps [a; b; c] = [[a1; a2; a3]; [a4; a5; a6]; [a7; a8; a9]])
      by (rewrite (so3_ljacinv_poly eps a b c Hbig); cbv zeta; apply poly3_shape).
    destruct (mvmul3_shape _ [vx; vy; vz] HA) as (n0 & n1 & n2 & En). cbn [K RS] in *. rewrite En. cbn [vscale map].
    destruct (mvmul3_shape _ [t * n0; t * n1; t * n2] (fillE_shape eps a b c)) as (e0 & e1 & e2 & Ee). cbn [K RS kmul] in *. rewrite Ee. cbn [vsub vmap2].
    match goal with |- context [@mvmul RS ?M ?v] => destruct (mvmul3_shape M v HA) as (o0 & o1 & o2 & Eo) end. cbn [K RS] in *. rewrite Eo. reflexivity.
  - unfold rminus_val. rewrite E. cbn [g_log g_inverse SGal3]. apply sg_log_inverse_generic; assumption.
Qed.
End P.
