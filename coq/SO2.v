(* SO2.v — model of impl/so2/SO2_base.h, SO2Tangent_base.h, SO2.h.
   Coefficients: [real; imag].  Tangent: [angle]. *)
From Coq Require Import ZArith List Bool.
Import ListNotations.
From Manif Require Import Scalar Mat Consts Group.

Section SO2.
Variable F : Sc.
Variable eps : K F.                    (* Constants<Scalar>::eps *)
Local Notation "a + b" := (kadd F a b) : k_scope.
Local Notation "a - b" := (ksub F a b) : k_scope.
Local Notation "a * b" := (kmul F a b) : k_scope.
Local Notation "a / b" := (kdiv F a b) : k_scope.
Local Notation "- a" := (kopp F a) : k_scope.
Local Open Scope k_scope.
Local Notation "0" := (k0 F) : k_scope.
Local Notation "1" := (k1 F) : k_scope.

(* utils.h: approxSqrtInv *)
Definition approxSqrtInv (x : K F) : K F :=
  (kz 15 / kz 8) - (kz 5 / kz 4) * x + (kz 3 / kz 8) * x * x.

(* eigen.h: skew(scalar) *)
Definition skew1 (v : K F) : list (list (K F)) := [[0; - v]; [v; 0]].

Definition so2_real (c : list (K F)) := vnth c 0.
Definition so2_imag (c : list (K F)) := vnth c 1.
Definition so2_angle (c : list (K F)) : K F := katan2 F (so2_imag c) (so2_real c).

(* SO2Base::rotation goes through angle(): cos/sin of atan2 *)
Definition so2_rotation (c : list (K F)) : list (list (K F)) :=
  let theta := so2_angle c in
  [[kcos F theta; - ksin F theta]; [ksin F theta; kcos F theta]].
Definition so2_transform (c : list (K F)) : list (list (K F)) :=
  mset_block (mid 3) 0 0 (so2_rotation c).

Definition so2_inverse (c : list (K F)) : list (K F) := [so2_real c; - so2_imag c].
Definition so2_inverse_J (c : list (K F)) : list (list (K F)) := [[kz (-1)]].

Definition so2_log (c : list (K F)) : list (K F) := [so2_angle c].
Definition so2_log_J (c : list (K F)) : list (list (K F)) := [[kz 1]].

(* the conditional renormalisation shared by SO2Base::compose and SE2Base::compose *)
Definition renorm2 (re im : K F) : K F * K F :=
  let n2 := re * re + im * im in
  if kgtb (kabs (n2 - kz 1)) eps
  then let s := approxSqrtInv n2 in (re * s, im * s)
  else (re, im).

Definition so2_compose (a b : list (K F)) : list (K F) :=
  let re := so2_real a * so2_real b - so2_imag a * so2_imag b in
  let im := so2_real a * so2_imag b + so2_imag a * so2_real b in
  let '(re, im) := renorm2 re im in [re; im].
Definition so2_compose_Ja (a b : list (K F)) : list (list (K F)) := [[kz 1]].
Definition so2_compose_Jb (a b : list (K F)) : list (list (K F)) := [[kz 1]].

Definition so2_act (c v : list (K F)) : list (K F) := mvmul (so2_rotation c) v.
Definition so2_act_Jm (c v : list (K F)) : list (list (K F)) :=
  colvec (mvmul (mmul (so2_rotation c) (skew1 (kz 1))) v).
Definition so2_act_Jv (c v : list (K F)) : list (list (K F)) := so2_rotation c.

Definition so2_adj (c : list (K F)) : list (list (K F)) := [[kz 1]].
Definition so2_translation (c : list (K F)) : list (K F) := [].

(* Eigen: v.normalize(): z = squaredNorm(); if (z > 0) v /= sqrt(z) *)
Definition eigen_normalize (v : list (K F)) : list (K F) :=
  let z := sqnorm v in if kgtb z 0 then vdivs v (ksqrt F z) else v.
Definition eigen_norm (v : list (K F)) : K F := ksqrt F (sqnorm v).

Definition so2_normalize (c : list (K F)) : list (K F) := eigen_normalize c.
Definition so2_assert_ok (c : list (K F)) : bool := kltb F (kabs (eigen_norm c - kz 1)) eps.

(* tangent *)
Definition so2t_angle (t : list (K F)) := vnth t 0.
Definition so2_exp (t : list (K F)) : list (K F) := [kcos F (so2t_angle t); ksin F (so2t_angle t)].
Definition so2_jac1 (t : list (K F)) : list (list (K F)) := [[kz 1]].
Definition so2_hat (t : list (K F)) : list (list (K F)) := [[kz 0; - so2t_angle t]; [so2t_angle t; kz 0]].
Definition so2_smallAdj (t : list (K F)) : list (list (K F)) := [[0]].
Definition so2_generator (i : Z) : res (list (list (K F))) :=
  if Z.eqb (to_unsigned32 i) 0 then Ok (skew1 (kz 1)) else InvalidArgument.
Definition so2_vee (m : list (list (K F))) : list (K F) := [mnth m 1 0].
Definition so2_trandom (u : list (K F)) : list (K F) := vscale_r u c_pi.

Definition SO2 : GroupOps F := {|
  g_dim := 2; g_dof := 1; g_rep := 2; g_tra := 3; g_alg := 2; g_actdim := 2;
  g_inverse := so2_inverse; g_inverse_J := so2_inverse_J;
  g_log := so2_log; g_log_J := so2_log_J;
  g_compose := so2_compose; g_compose_Ja := so2_compose_Ja; g_compose_Jb := so2_compose_Jb;
  g_act := so2_act; g_act_Jm := so2_act_Jm; g_act_Jv := so2_act_Jv;
  g_adj := so2_adj; g_transform := so2_transform; g_rotation := so2_rotation;
  g_translation := so2_translation; g_normalize := so2_normalize; g_assert_ok := so2_assert_ok;
  g_exp := so2_exp; g_exp_J := so2_jac1; g_hat := so2_hat;
  g_rjac := so2_jac1; g_ljac := so2_jac1; g_rjacinv := so2_jac1; g_ljacinv := so2_jac1;
  g_smallAdj := so2_smallAdj; g_generator := so2_generator; g_vee := so2_vee;
  g_bracket := fun a b => mvmul (so2_smallAdj a) b;
  g_innerweights := inner_weights_generic 1 2 so2_generator;
  g_trandom := so2_trandom;
  g_grandom := fun u => so2_exp (so2_trandom u)
|}.
End SO2.
