(* AvgInst.v — the side conditions of AvgProofs.v for SO2 and SE2 (tangents closed under addition, log Identity = 0). *)
From Coq Require Import Reals ZArith List Lra Bool.
From Manif Require Import Scalar Mat Consts Group RInst Tac Generic LieSpec Algorithms SO2 SE2 SE2Proofs InterpProofs InterpInst Approx Approx_Inst AvgProofs.
Import ListNotations.
Local Open Scope R_scope.

Section P.
Variable eps : R.
Hypothesis eps_pos : 0 < eps.
Hypothesis eps_le : eps <= 1.

Theorem se2_average_left_equivariant g pts e it : se2_valid g -> Forall se2_valid pts ->
  average_biinvariant (SE2 RS eps) (map (g_compose (SE2 RS eps) g) pts) e it =
  rmap (g_compose (SE2 RS eps) g) (average_biinvariant (SE2 RS eps) pts e it).
Proof.
  apply (average_biinvariant_left_equivariant _ (SE2_explog eps eps_pos eps_le)).
  - intros a b (a1 & a2 & a3 & ->) (b1 & b2 & b3 & ->). eexists _, _, _; reflexivity.
  - eexists _, _, _; reflexivity.
Qed.
Theorem so2_average_left_equivariant g pts e it : so2_valid g -> Forall so2_valid pts ->
  average_biinvariant (SO2 RS eps) (map (g_compose (SO2 RS eps) g) pts) e it =
  rmap (g_compose (SO2 RS eps) g) (average_biinvariant (SO2 RS eps) pts e it).
Proof.
  apply (average_biinvariant_left_equivariant _ (SO2_explog eps eps_pos)).
  - intros a b (a1 & ->) (b1 & ->). eexists; reflexivity.
  - eexists; reflexivity.
Qed.

Theorem se2_average_valid fuel pts avg w e : Forall se2_valid pts -> se2_valid avg -> se2_valid (biinv_loop (SE2 RS eps) fuel pts avg w e).
Proof.
  apply (biinv_valid _ (SE2_explog eps eps_pos eps_le)).
  - intros a b (a1 & a2 & a3 & ->) (b1 & b2 & b3 & ->). eexists _, _, _; reflexivity.
  - eexists _, _, _; reflexivity.
Qed.

Theorem se2_average_identical X n e it : se2_valid X -> 0 < e -> average_biinvariant (SE2 RS eps) (repeat X (S (S n))) e (S it) = Ok X.
Proof.
  apply (average_identical _ (SE2_explog eps eps_pos eps_le)).
  - apply se2_log_identity; exact eps_pos.
  - cbn [g_dof SE2 SO2]. mat_unfold. match goal with |- @eq _ ?u ?v => change (@eq (list R) u v) end. list_eq; ring.
  - intros w. cbn [g_dof SE2 SO2]. mat_unfold. match goal with |- @eq _ ?u ?v => change (@eq (list R) u v) end. list_eq; ring.
Qed.
Theorem so2_average_identical X n e it : so2_valid X -> 0 < e -> average_biinvariant (SO2 RS eps) (repeat X (S (S n))) e (S it) = Ok X.
Proof.
  apply (average_identical _ (SO2_explog eps eps_pos)).
  - apply so2_log_identity; exact eps_pos.
  - cbn [g_dof SE2 SO2]. mat_unfold. match goal with |- @eq _ ?u ?v => change (@eq (list R) u v) end. list_eq; ring.
  - intros w. cbn [g_dof SE2 SO2]. mat_unfold. match goal with |- @eq _ ?u ?v => change (@eq (list R) u v) end. list_eq; ring.
Qed.
End P.
