(* Adj_SGal3.v — AdjLaws (property C06, algebraic part) for the SGal(3) model. *)
From Coq Require Import Reals ZArith List Lra.
From Manif Require Import Scalar Mat Consts Group RInst Tac SO2 SO3 SE3 SE23 SGal3 Generic LieSpec SO3Proofs SE23Proofs RnProofs AlgTac AdjTac Adj_SO3.
Import ListNotations.
Local Open Scope R_scope.
Section P.
Variable eps : R.
Hypothesis eps_pos : 0 < eps.

Lemma SGal3_adj : AdjLaws (SGal3 RS eps) sg_valid.
Proof.
  assert (Hhom : forall X Y, sg_valid X -> sg_valid Y ->
     sg_adj RS (sg_compose RS eps X Y) = @mmul RS (sg_adj RS X) (sg_adj RS Y)).
  { intros X Y (apx & apy & apz & ax & ay & az & aw & avx & avy & avz & at_ & -> & Ha)
               (bpx & bpy & bpz & bx & by_ & bz & bw & bvx & bvy & bvz & bt & -> & Hb).
    rewrite (sg_compose_valid_eq eps eps_pos), quat_mul_eq by assumption.
    pose proof (quat_mul_unit _ _ _ _ _ _ _ _ Ha Hb) as Hc.
    unfold rot_hom at 1 2. mat_unfold. unfold sg_adj.
    rewrite !sg_rotation_unit by assumption. unfold rot_hom.
    pose proof (n4_w _ _ _ _ Ha) as Hw. rcbv. list_eq; ringm1 Hw. }
  assert (Hid : sg_adj RS (g_identity (SGal3 RS eps)) = @mid RS 10).
  { rewrite (sg_identity_eq eps eps_pos). rcbv. list_eq; ring. }
  constructor; unfold g_matrep; cbn [g_alg g_dof g_transform g_hat g_inverse g_adj g_compose g_smallAdj g_ljac g_rjac SGal3].
  - intros X s (px & py & pz & x & y & z & w & vx & vy & vz & t & -> & H) Hs. destruct_len s Hs.
    rewrite sg_inverse_valid_eq by assumption. unfold rot_hom at 1 2. mat_unfold.
    unfold sg_transform, sg_adj.
    rewrite !sg_rotation_unit by (unfold n4 in *; try assumption; rewrite <- H; ring).
    unfold rot_hom. pose proof (n4_w _ _ _ _ H) as Hw. rcbv. list_eq; ringm1 Hw.
  - exact Hhom.
  - exact Hid.
  - exact (adj_inverse_of_hom _ (SGal3_core eps eps_pos) Hhom Hid).
  - intros t s Ht Hs. destruct_len t Ht. destruct_len s Hs. rcbv. list_eq; ring.
  - intros t Ht. destruct_len t Ht.
    unfold sg_rjac. cbn [vneg map]. rewrite !Ropp_involutive. reflexivity.
Qed.
End P.
