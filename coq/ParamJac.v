(* ParamJac.v — C12's clause "the dual parts reproduce the analytic Jacobian" as theorems, by combining the generic chain
   (ParamGen: dual part = derivative of the real-number function) with C05 (that derivative = the analytic Jacobian applied to
   the direction): SO3 — every entry of the rotation matrix of exp(t + eps d) has dual part (R(exp t) hat(rjac(t) d))_ij. *)
From Param Require Import Param.
From Coq Require Import Reals ZArith List Lra Lia.
From Coquelicot Require Import Coquelicot.
From Manif Require Import ParamBase Scalar RInst Dual DualProofs ParamDual Mat Consts Group SO3 Run ParamRun ParamGen Tac Jr_SO3.
Import ListNotations.
Local Open Scope R_scope.

Definition rotexp (F : Sc) (eps : K F) (t : list (K F)) : list (K F) := concat (so3_rotation F (so3_exp F eps t)).
Parametricity Recursive rotexp.

Theorem so3_rot_exp_dual_is_derivative eps x y z dx dy dz j : 0 < eps -> eps < x * x + y * y + z * z -> (j < 9)%nat ->
  is_derive (fun h => nth j (rotexp RS eps (atv h [x; y; z] [dx; dy; dz])) 0) 0
    (snd (nth j (rotexp (DS RS) (eps, 0) (seedv [x; y; z] [dx; dy; dz])) (0, 0))).
Proof.
  intros He Hgt Hj.
  set (nf := fun h : R => (x + h * dx) * (x + h * dx) + ((y + h * dy) * (y + h * dy) + ((z + h * dz) * (z + h * dz) + 0))).
  assert (Hc : continuous nf 0) by (apply (ex_derive_continuous nf); unfold nf; auto_derive; exact I).
  assert (N0 : nf 0 = x * x + y * y + z * z) by (unfold nf; ring).
  assert (EKh : forall h, fn (@sqnorm (FSh h) [line1 x dx; line1 y dy; line1 z dz]) = nf) by (intros h; reflexivity).
  assert (EK0 : fn (@sqnorm FS [line1 x dx; line1 y dy; line1 z dz]) = nf) by reflexivity.
  assert (Hloc : locally 0 (fun h => eps < nf h)).
  { apply (Hc (fun v => eps < v)). apply (open_gt eps). rewrite N0. exact Hgt. }
  apply (chain_generic rotexp rotexp_R eps [x; y; z] [dx; dy; dz] j).
  - apply (filter_imp (fun h => eps < nf h)); [intros h Hh|exact Hloc].
    unfold rotexp, so3_exp, eigen_normalized, kgtb. cbn [linev combine map fst snd].
    cbn [kltb FSh FS fn fconst]. rewrite EKh, EK0, N0. change (fn (k0 (FSh h)) h) with 0. change (fn (k0 FS) 0) with 0.
    rewrite (Rltb_lt_true _ _ Hh), (Rltb_lt_true _ _ Hgt), (Rltb_lt_true 0 (nf h)) by lra. rewrite (Rltb_lt_true 0 (x * x + y * y + z * z)) by lra. reflexivity.
  - unfold rotexp, so3_exp, eigen_normalized, kgtb. cbn [seedv combine]. cbn [kltb DS RS fst]. 
    assert (Es : fst (@sqnorm (DS RS) [(x, dx); (y, dy); (z, dz)]) = x * x + (y * y + (z * z + 0))) by reflexivity.
    rewrite Es. replace (x * x + (y * y + (z * z + 0))) with (x * x + y * y + z * z) by ring.
    rewrite (Rltb_lt_true _ _ Hgt). change (fst (k0 (DS RS))) with 0. rewrite (Rltb_lt_true 0 (x * x + y * y + z * z)) by lra. cbn. exact Hj.
  - unfold rotexp, so3_exp, eigen_normalized, kgtb. cbn [linev combine map fst snd].
    cbn [kltb FS fn fconst]. rewrite EK0, N0. change (fn (k0 FS) 0) with 0. rewrite (Rltb_lt_true _ _ Hgt), (Rltb_lt_true 0 (x * x + y * y + z * z)) by lra.
    assert (Hs : sqrt (nf 0) <> 0) by (rewrite N0; intros E0; apply sqrt_eq_0 in E0; lra).
    assert (Hp : 0 < nf 0) by (rewrite N0; lra).
    do 9 (destruct j as [|j]; [cbn; fold nf; tauto|]). exfalso; lia.
Qed.

Theorem so3_exp_dual_is_analytic eps x y z dx dy dz i j : 0 < eps -> eps < x * x + y * y + z * z -> (i < 3)%nat -> (j < 3)%nat ->
  snd (nth (3 * i + j) (rotexp (DS RS) (eps, 0) (seedv [x; y; z] [dx; dy; dz])) (0, 0)) =
  @mnth RS (@Mat.mmul RS (so3_rotation RS (so3_exp RS eps [x; y; z])) (@skew3 RS (rjac_d eps x y z dx dy dz))) i j.
Proof.
  intros He Hgt Hi Hj.
  pose proof (so3_rot_exp_dual_is_derivative eps x y z dx dy dz (3 * i + j) He Hgt ltac:(lia)) as D1.
  pose proof (so3_rjac_is_derivative eps He x y z dx dy dz i j Hgt Hi Hj) as D2.
  apply (is_derive_unique _ _ _) in D1. apply (is_derive_unique _ _ _) in D2. rewrite <- D1, <- D2.
  f_equal. unfold rot_exp, rotexp, atv. cbn [combine map fst snd].
  destruct i as [|[|[|i]]]; [| | |exfalso; lia]; destruct j as [|[|[|j]]]; try (exfalso; lia); reflexivity.
Qed.
Print Assumptions so3_exp_dual_is_analytic.

(* SE2: the four coefficients of exp(t + eps d) over dual numbers have dual parts X * hat(rjac(t) d), rjac the model's own *)
From Manif Require Import SO2 SE2 Jr_SE2 ParamChain.
Theorem se2_exp_dual_is_analytic eps x y th dx dy dth : 0 < eps -> eps < th * th ->
  let u := @mvmul RS (se2_rjac RS eps [x; y; th]) [dx; dy; dth] in
  let u1 := nth 0 u 0 in let u2 := nth 1 u 0 in let u3 := nth 2 u 0 in
  let D j := snd (entry (0, 0) (@run_op (DS RS) (eps, 0) GSE2 OExp [] 0%Z (seed [[x; y; th]] [[dx; dy; dth]])) 0 j) in
  D 0%nat = cos th * u1 - sin th * u2 /\ D 1%nat = sin th * u1 + cos th * u2 /\ D 2%nat = - sin th * u3 /\ D 3%nat = cos th * u3.
Proof.
  intros He Hgt. cbv zeta.
  assert (Hth : th <> 0) by (intros ->; lra).
  rewrite (se2_rjac_generic eps x y th (Rlt_le _ _ Hgt)).
  destruct (se2_rjac_is_derivative x y th dx dy dth Hth) as (E0 & E1 & E2 & E3). cbv zeta in E0, E1, E2, E3.
  assert (Hc : continuous (fun h => (th + h * dth) * (th + h * dth)) 0).
  { apply (ex_derive_continuous (fun h : R => (th + h * dth) * (th + h * dth))). auto_derive. exact I. }
  assert (Hloc : locally 0 (fun h => eps < (th + h * dth) * (th + h * dth))).
  { apply (Hc (fun v => eps < v)). apply (open_gt eps). rewrite Rmult_0_l, Rplus_0_r. exact Hgt. }
  assert (Hrun : forall h, eps < (th + h * dth) * (th + h * dth) ->
     @run_op RS eps GSE2 OExp [] 0%Z (at_h h [[x; y; th]] [[dx; dy; dth]]) =
     Ok [[ex (x + h * dx) (y + h * dy) (th + h * dth); ey (x + h * dx) (y + h * dy) (th + h * dth); cos (th + h * dth); sin (th + h * dth)]]).
  { intros h Hh. cbn [run_op group_of arg bit nth at_h combine map fst snd g_exp SE2 out1]. rewrite (se2_exp_generic eps _ _ _ (Rlt_le _ _ Hh)). reflexivity. }
  assert (U : forall j g v, (j < 4)%nat ->
     locally 0 (fun h => g h = entry 0 (@run_op RS eps GSE2 OExp [] 0%Z (at_h h [[x; y; th]] [[dx; dy; dth]])) 0 j) -> is_derive g 0 v ->
     snd (entry (0, 0) (@run_op (DS RS) (eps, 0) GSE2 OExp [] 0%Z (seed [[x; y; th]] [[dx; dy; dth]])) 0 j) = v).
  { intros j g v Hj Hl Hg. pose proof (chain_SE2_exp eps x y th dx dy dth j He ltac:(lra) Hj) as D1.
    pose proof (is_derive_ext_loc _ _ _ _ Hl Hg) as D2. apply (is_derive_unique _ _ _) in D1. apply (is_derive_unique _ _ _) in D2. etransitivity; [symmetry; exact D1|exact D2]. }
  apply (U 0%nat _ _ ltac:(lia)) in E0; [|apply (filter_imp _ _ (fun h Hh => eq_sym (f_equal (fun r => entry 0 r 0 0) (Hrun h Hh))) Hloc)].
  apply (U 1%nat _ _ ltac:(lia)) in E1; [|apply (filter_imp _ _ (fun h Hh => eq_sym (f_equal (fun r => entry 0 r 0 1) (Hrun h Hh))) Hloc)].
  apply (U 2%nat _ _ ltac:(lia)) in E2; [|apply (filter_imp _ _ (fun h Hh => eq_sym (f_equal (fun r => entry 0 r 0 2) (Hrun h Hh))) Hloc)].
  apply (U 3%nat _ _ ltac:(lia)) in E3; [|apply (filter_imp _ _ (fun h Hh => eq_sym (f_equal (fun r => entry 0 r 0 3) (Hrun h Hh))) Hloc)].
  rewrite E0, E1, E2, E3. mat_unfold. repeat split; ring.
Qed.
