"""gen2.py — generators for the operations whose arguments are not a fixed signature: histories (C08),
interpolation / smoothing_phi (C15), averages (C16), de Casteljau (C17), cast (C13)."""
from fractions import Fraction as Fr
import corr
from gen import G, fs, EPS_D, SQRT_EPS_D

for op in ("History", "Interp", "Phi", "Average", "Decasteljau", "Cast"):
    corr.OPSIG[op] = ("", 0)

def small_tangent(g, gd, scale=None):
    """tangent with small numerators/denominators (keeps exact rationals short through several operations)"""
    out = []
    for kind, n in gd.tparts:
        if kind == "lin":
            out += [Fr(g.r.randint(-8, 8), g.r.choice([1, 2, 3, 4])) for _ in range(n)]
        else:
            th = g.angle(g.r.choice(["zero", "tiny", "below_thr", "above_thr", "small", "generic", "generic", "near_pi"]))
            if scale: th = th * scale
            out += [th] if kind == "ang1" else g.vec3_norm(th)
    return out

def small_elem(g, gd, valid=True):
    out = []
    for kind, n in gd.eparts:
        if kind == "lin": out += [Fr(g.r.randint(-9, 9), g.r.choice([1, 1, 2, 5])) for _ in range(n)]
        elif kind == "rot2": out += g.unit2() if valid else g.nonunit2()
        else: out += g.unit4() if valid else g.nonunit4()
    return out

def encode(digits):
    code = 0
    for d in reversed(digits): code = code * 16 + d
    return code

def gen_history(g, gn):
    gd = corr.group(gn)
    X = small_elem(g, gd, g.r.random() < 0.7); Y = small_elem(g, gd, g.r.random() < 0.7)
    us = [g.r.choice([Fr(0), Fr(1), Fr(1, 2), Fr(1, 3), Fr(3, 4), Fr(-1, 8), Fr(9, 8)]) for _ in range(3)]
    ts = [small_tangent(g, gd) for _ in range(3)]
    n = g.r.randint(1, 4)
    digits = [g.r.choice([1, 2, 3, 4, 5, 6, 7, 8, 9, 10, 11]) for _ in range(n)]
    g.note("history_len:%d" % n)
    for d in digits: g.note("history_op:%d" % d)
    return dict(group=gn, op="History", mask="-", iarg=encode(digits), flt=0, args=[X, Y, us] + ts)
corr.CUSTOM_GEN["History"] = gen_history

T_STRATA = [Fr(0), Fr(1), Fr(1, 2), Fr(1, 3), Fr(7, 8), Fr(1, 2 ** 30), 1 - Fr(1, 2 ** 30), -Fr(1, 2 ** 30), 1 + Fr(1, 2 ** 30), Fr(-1), Fr(2)]
def gen_interp(g, gn, methods=(0, 1, 2, 10, 11, 12, 13, 14, 15, 16)):
    gd = corr.group(gn)
    A = small_elem(g, gd, True)
    B = corr.gen_near(g, gd, A) if g.r.random() < 0.6 else small_elem(g, gd, True)
    t = g.r.choice(T_STRATA); g.note("interp_t:%s" % fs(t))
    ta = small_tangent(g, gd) if g.r.random() < 0.7 else [Fr(0)] * gd.dof
    tb = small_tangent(g, gd) if g.r.random() < 0.7 else [Fr(0)] * gd.dof
    m = g.r.choice(list(methods)); g.note("interp_method:%d" % m)
    return dict(group=gn, op="Interp", mask="-", iarg=m, flt=0, args=[A, B, [t], ta, tb])
corr.CUSTOM_GEN["Interp"] = gen_interp

def gen_phi(g, gn):
    t = g.r.choice(T_STRATA + [Fr(g.r.randint(0, 100), 100)])
    d = g.r.randint(0, 6); g.note("phi_degree:%d" % d)
    return dict(group=gn, op="Phi", mask="-", iarg=d, flt=0, args=[[t]])
corr.CUSTOM_GEN["Phi"] = gen_phi

def gen_average(g, gn, nmax=3, itmax=2):
    gd = corr.group(gn)
    n = g.r.choice([0, 1, 2, 2, 3, 3][:nmax + 3]); n = min(n, nmax)
    X = small_elem(g, gd, True)
    pts = [X] + [corr.gen_near(g, gd, X) if g.r.random() < 0.5 else small_elem(g, gd, True) for _ in range(max(0, n - 1))]
    pts = pts[:n]
    if n >= 2 and g.r.random() < 0.2: pts = [X] * n          # identical points
    kind = g.r.randint(0, 3); it = g.r.randint(0, itmax if gd.rep < 7 else 1)
    if gd.rep >= 10 and n > 2: pts = pts[:2]; n = 2
    g.note("average_kind:%d" % kind); g.note("average_n:%d" % n)
    e = g.r.choice([EPS_D, Fr(1, 10 ** 6), Fr(1, 100)])
    return dict(group=gn, op="Average", mask="-", iarg=100 * kind + it, flt=0, args=[[e]] + pts)
corr.CUSTOM_GEN["Average"] = gen_average

def dc_ts(d, k):
    seg_k = k if d == 2 else k * d
    return [Fr(float(t) / seg_k) for t in range(1, seg_k + 1)]
def gen_decasteljau(g, gn, nmax=7, exact_small=True):
    gd = corr.group(gn)
    N = g.r.choice([0, 1, 2, 3, 3, 4, 5, 5, 6, 7, 8, 9][:nmax + 4]); N = min(N, nmax)
    d = g.r.randint(2, max(2, N + 1)); k = g.r.choice([0, 1, 1, 2, 2, 3]); closed = g.r.choice([0, 1])
    if not gn.startswith("R") and exact_small:       # exact rationals grow with every nested rplus / rminus: keep the non-commutative cases small
        N = min(N, 4); d = min(d, 3); k = min(k, 1)
    if gn.startswith("R"): pts = [[Fr(g.r.randint(-99, 99), g.r.choice([1, 2, 3, 7])) for _ in range(gd.rep)] for _ in range(N)]
    else: pts = [small_elem(g, gd, True) for _ in range(N)]
    g.note("dc_N:%d" % N); g.note("dc_d:%d" % d); g.note("dc_closed:%d" % closed)
    return dict(group=gn, op="Decasteljau", mask="-", iarg=(d * 1000 + k) * 2 + closed, flt=0, args=[dc_ts(d, max(k, 1))] + pts)
corr.CUSTOM_GEN["Decasteljau"] = gen_decasteljau

def gen_cast(g, gn):
    gd = corr.group(gn)
    return dict(group=gn, op="Cast", mask="-", iarg=0, flt=0, args=[corr.gen_elem(g, gd, valid=(g.r.random() < 0.6))])
corr.CUSTOM_GEN["Cast"] = gen_cast

# ---------------------------------------------------------------- constructors (C13)
corr.OPSIG["Ctor"] = ("", 0)
def quat_matrix_py(q):
    x, y, z, w = q
    return [1 - 2 * (y * y + z * z), 2 * (x * y - w * z), 2 * (x * z + w * y),
            2 * (x * y + w * z), 1 - 2 * (x * x + z * z), 2 * (y * z - w * x),
            2 * (x * z - w * y), 2 * (y * z + w * x), 1 - 2 * (x * x + y * y)]
def rot_arg(g, kind):
    """rotation argument(s) of a 3D constructor for kind 0 quaternion, 1 angle-axis, 2 rpy, 3 rotation matrix"""
    if kind == 0:
        return [g.unit4() if g.r.random() < 0.6 else g.nonunit4()]
    if kind == 1:
        th = g.angle()
        ax = g.r.choice([[1, 0, 0], [0, 1, 0], [0, 0, 1], [Fr(3, 5), Fr(4, 5), 0], [Fr(2, 3), Fr(2, 3), Fr(1, 3)], [Fr(-2, 7), Fr(3, 7), Fr(6, 7)]])
        ax = [Fr(x) for x in ax]
        if g.r.random() < 0.25:    # not a unit axis: the resulting quaternion is not normalised
            k = 1 + g.r.choice([Fr(1, 2 ** 48), Fr(-1, 2 ** 48), SQRT_EPS_D, Fr(1, 8)])
            ax = [x * k for x in ax]
        return [[th], ax]
    if kind == 2:
        return [[g.angle() * g.r.choice([1, 1, 3, 10]) for _ in range(3)]]
    q = g.unit4(g.r.choice(["generic_pos", "generic_neg", "axis", "near_pi", "w0", "tiny", "id"]))
    # permute so that each of the four branches of Quaternion(Matrix3) is taken
    p = g.r.choice([[0, 1, 2, 3], [3, 1, 2, 0], [1, 3, 2, 0], [1, 2, 3, 0]])
    q = [q[i] for i in p]
    return [quat_matrix_py(q)]
def gen_ctor(g, gn, asserts=False):
    gd = corr.group(gn); mask = "1" if asserts else "0"
    def lin(n): return [Fr(g.r.randint(-99, 99), g.r.choice([1, 2, 7])) * 2 ** g.r.choice([0, 0, 0, 20, -20]) for _ in range(n)]
    if gn == "SO2":
        cid = g.r.choice([0, 1, 0])
        args = [g.unit2() if g.r.random() < 0.6 else g.nonunit2()] if cid == 0 else [[g.angle() * g.r.choice([1, 1, 3, 10])]]
    elif gn == "SE2":
        cid = g.r.choice([0, 1, 2])
        if cid == 0: args = [lin(2) + [g.angle() * g.r.choice([1, 1, 3, 10])]]
        elif cid == 1: args = [lin(2) + (g.unit2() if g.r.random() < 0.6 else g.nonunit2())]
        else:
            c = g.unit2(); args = [lin(2), [c[0], -c[1], c[1], c[0]]]
    elif gn.startswith("R"):
        cid = 0; args = [lin(gd.rep)]
    else:
        cid = g.r.randint(0, 3); ra = rot_arg(g, cid)
        if gn == "SO3": args = ra
        else:
            args = [lin(3)] + ra
            if gn in ("SE23", "SGal3"): args.append(lin(3))
            if gn == "SGal3": args.append(lin(1))
        # setters
        if gn in ("SO3", "SE3") and g.r.random() < 0.2:
            X = corr.gen_elem(g, gd, True); q = g.unit4() if g.r.random() < 0.5 else g.nonunit4()
            if gn == "SE3" and g.r.random() < 0.4: cid = 11; args = [X, lin(3)]
            else: cid = 10; args = [X, q]
    # construction from a view / assignment of raw data (every group): valid and non-unit coefficients
    if g.r.random() < 0.3:
        cid = g.r.choice([20, 21, 22, 23, 24])
        args = [corr.gen_elem(g, gd, g.r.random() < 0.5)]
    g.note("ctor:%s:%d" % (gn, cid))
    return dict(group=gn, op="Ctor", mask=mask, iarg=cid, flt=0, args=args)
corr.CUSTOM_GEN["Ctor"] = gen_ctor

# ---------------------------------------------------------------- views (C10)
corr.OPSIG["View"] = ("", 0)
VIEW_READS = [0, 1, 2, 3, 4, 5, 6, 8, 9, 20]
VIEW_WRITES = [10, 11, 12, 13, 14, 15, 16, 17, 18, 19, 21, 22]
VIEW_TANGENT = [30, 31, 32, 33, 34, 35, 36]
def gen_view(g, gn, ids=None):
    """a buffer with guard zones of distinct sentinel values around two element slots; the view is deliberately not aligned"""
    gd = corr.group(gn)
    vid = g.r.choice(ids or (VIEW_READS + VIEW_WRITES + VIEW_TANGENT))
    if vid == 14 and gn.startswith("R"): vid = 11
    tangent = vid >= 30
    n = gd.dof if tangent else gd.rep
    g1 = g.r.randint(1, 5); g2 = g.r.randint(1, 4); g3 = g.r.randint(1, 5)
    off = g1; off2 = g1 + n + g2
    sent = lambda i: Fr(100003 + 17 * i, 7)
    A = small_tangent(g, gd) if tangent else small_elem(g, gd, True)
    B = small_tangent(g, gd) if tangent else small_elem(g, gd, True)
    buf = [sent(i) for i in range(g1)] + A + [sent(50 + i) for i in range(g2)] + B + [sent(100 + i) for i in range(g3)]
    Y = small_elem(g, gd, True); t = small_tangent(g, gd)
    k = g.r.randrange(gd.rep); val = Fr(g.r.randint(-9, 9), g.r.choice([1, 2, 3]))
    cst = "1" if (vid in VIEW_READS or vid in (30, 35)) and g.r.random() < 0.5 else "0"
    g.note("view_op:%d" % vid); g.note("view_kind:" + ("const" if cst == "1" else "mutable"))
    return dict(group=gn, op="View", mask=cst, iarg=off + 1000 * off2 + 10 ** 6 * k + 10 ** 9 * vid, flt=0, args=[buf, [Fr(off), Fr(off2)], Y, t, [Fr(k), val]])
corr.CUSTOM_GEN["View"] = gen_view
