(* Jr_SE2.v — property C05, the one analytic fact for SE2: rjac(t) is the right Jacobian of exp at t.
   For t = (x, y, theta) in the generic branch and any direction d, the curve h -> exp(t + h d) has, at h = 0, the
   left-trivialised velocity u = rjac(t) d:  d/dh (position) = R(theta) (u1, u2),  d/dh (cos, sin) = (-sin, cos) u3. *)
From Coq Require Import Reals ZArith List Lra.
From Coquelicot Require Import Coquelicot.
From Manif Require Import Scalar Mat Consts Group RInst Tac SO2 SE2.
Import ListNotations.
Local Open Scope R_scope.

(* the generic-branch closed form of exp, as functions of the tangent *)
Definition ex (x y th : R) : R := sin th / th * x - (1 - cos th) / th * y.
Definition ey (x y th : R) : R := (1 - cos th) / th * x + sin th / th * y.

Section P.
Variable eps : R.
Hypothesis eps_pos : 0 < eps.

Lemma se2_exp_generic x y th : eps <= th * th -> se2_exp RS eps [x; y; th] = [ex x y th; ey x y th; cos th; sin th].
Proof.
  intros H. unfold se2_exp, se2_AB, ex, ey. mat_unfold. rewrite (Rltb_lt_false (th * th) eps) by exact H. reflexivity.
Qed.
Lemma se2_rjac_generic x y th : eps <= th * th ->
  se2_rjac RS eps [x; y; th] =
  [[sin th / th; (1 - cos th) / th; (- y + th * x + y * cos th - x * sin th) / (th * th)];
   [- ((1 - cos th) / th); sin th / th; (x + th * y - x * cos th - y * sin th) / (th * th)];
   [0; 0; 1]].
Proof.
  intros H. unfold se2_rjac, se2_AB. mat_unfold. rewrite (Rltb_lt_false (th * th) eps) by exact H. reflexivity.
Qed.

(* derivative of the closed form along t + h d *)
Theorem se2_rjac_is_derivative x y th dx dy dth : th <> 0 ->
  let u1 := sin th / th * dx + (1 - cos th) / th * dy + (- y + th * x + y * cos th - x * sin th) / (th * th) * dth in
  let u2 := - ((1 - cos th) / th) * dx + sin th / th * dy + (x + th * y - x * cos th - y * sin th) / (th * th) * dth in
  let u3 := dth in
  is_derive (fun h => ex (x + h * dx) (y + h * dy) (th + h * dth)) 0 (cos th * u1 - sin th * u2) /\
  is_derive (fun h => ey (x + h * dx) (y + h * dy) (th + h * dth)) 0 (sin th * u1 + cos th * u2) /\
  is_derive (fun h => cos (th + h * dth)) 0 (- sin th * u3) /\
  is_derive (fun h => sin (th + h * dth)) 0 (cos th * u3).
Proof.
  intros Hth. cbv zeta.
  assert (Hsc : sin th * sin th = 1 - cos th * cos th) by (pose proof (sin2_cos2 th) as H; unfold Rsqr in H; lra).
  split; [|split; [|split]].
  - unfold ex. auto_derive; [rewrite Rmult_0_l, Rplus_0_r; repeat split; exact Hth|].
    rewrite !Rmult_0_l, !Rplus_0_r. field_simplify_eq; [|exact Hth].
    set (c := cos th) in *. set (s := sin th) in *. ring_simplify. replace (s ^ 2) with (1 - c ^ 2) by (simpl; lra). ring.
  - unfold ey. auto_derive; [rewrite Rmult_0_l, Rplus_0_r; repeat split; exact Hth|].
    rewrite !Rmult_0_l, !Rplus_0_r. field_simplify_eq; [|exact Hth].
    set (c := cos th) in *. set (s := sin th) in *. ring_simplify. replace (s ^ 2) with (1 - c ^ 2) by (simpl; lra). ring.
  - auto_derive; [exact I|]. rewrite !Rmult_0_l, !Rplus_0_r. ring.
  - auto_derive; [exact I|]. rewrite !Rmult_0_l, !Rplus_0_r. ring.
Qed.
End P.
