// ctor.h — the constructors and setters of the concrete classes, by id (property C13). Same ids as coq/Ctor.v.
#pragma once
#include "run.h"
#include <Eigen/Geometry>

template<class S> static Eigen::Matrix<S,3,1> v3(const std::vector<std::string>& a){ return vec_from<S,Eigen::Matrix<S,3,1>>(a); }
template<class S> static S s0(const std::vector<std::string>& a, size_t i=0){ return ScalarIO<S>::parse(a[i]); }
template<class S> static Eigen::Matrix<S,3,3> m33(const std::vector<std::string>& a){ Eigen::Matrix<S,3,3> m; for(int i=0;i<3;i++) for(int j=0;j<3;j++) m(i,j)=ScalarIO<S>::parse(a[i*3+j]); return m; }

template<class G> struct CtorRunner { static bool make(const Case&, int, G&){ return false; } };

template<class S> struct CtorRunner<manif::SO2<S>> { using G = manif::SO2<S>;
  static bool make(const Case& c, int id, G& r){
    switch(id){ case 0: r = G(s0<S>(c.args[0],0), s0<S>(c.args[0],1)); return true;
                case 1: r = G(s0<S>(c.args[0])); return true; }
    return false; } };
template<class S> struct CtorRunner<manif::SE2<S>> { using G = manif::SE2<S>;
  static bool make(const Case& c, int id, G& r){
    switch(id){ case 0: r = G(s0<S>(c.args[0],0), s0<S>(c.args[0],1), s0<S>(c.args[0],2)); return true;
                case 1: r = G(s0<S>(c.args[0],0), s0<S>(c.args[0],1), s0<S>(c.args[0],2), s0<S>(c.args[0],3)); return true;
                case 2: { Eigen::Transform<S,2,Eigen::Isometry> h = Eigen::Transform<S,2,Eigen::Isometry>::Identity();
                          h.translation() << s0<S>(c.args[0],0), s0<S>(c.args[0],1);
                          for(int i=0;i<2;i++) for(int j=0;j<2;j++) h.linear()(i,j) = s0<S>(c.args[1], i*2+j);
                          r = G(h); return true; } }
    return false; } };
// the rotation argument starting at args[k], as a quaternion-producing expression for the class at hand
template<class S> struct CtorRunner<manif::SO3<S>> { using G = manif::SO3<S>;
  static bool make(const Case& c, int id, G& r){
    switch(id){ case 0: r = G(s0<S>(c.args[0],0), s0<S>(c.args[0],1), s0<S>(c.args[0],2), s0<S>(c.args[0],3)); return true;
                case 1: r = G(Eigen::AngleAxis<S>(s0<S>(c.args[0]), v3<S>(c.args[1]))); return true;
                case 2: r = G(s0<S>(c.args[0],0), s0<S>(c.args[0],1), s0<S>(c.args[0],2)); return true;
                case 3: r = G(Eigen::Quaternion<S>(m33<S>(c.args[0]))); return true; }
    return false; } };
template<class S> static Eigen::Transform<S,3,Eigen::Isometry> iso3(const std::vector<std::string>& t, const std::vector<std::string>& m){
  Eigen::Transform<S,3,Eigen::Isometry> h = Eigen::Transform<S,3,Eigen::Isometry>::Identity(); h.translation() = v3<S>(t); h.linear() = m33<S>(m); return h; }
template<class S> struct CtorRunner<manif::SE3<S>> { using G = manif::SE3<S>;
  static bool make(const Case& c, int id, G& r){
    switch(id){ case 0: { Eigen::Quaternion<S> q; q.coeffs() = vec_from<S,Eigen::Matrix<S,4,1>>(c.args[1]); r = G(v3<S>(c.args[0]), q); return true; }
                case 1: r = G(v3<S>(c.args[0]), Eigen::AngleAxis<S>(s0<S>(c.args[1]), v3<S>(c.args[2]))); return true;
                case 2: r = G(s0<S>(c.args[0],0), s0<S>(c.args[0],1), s0<S>(c.args[0],2), s0<S>(c.args[1],0), s0<S>(c.args[1],1), s0<S>(c.args[1],2)); return true;
                case 3: r = G(iso3<S>(c.args[0], c.args[1])); return true; }
    return false; } };
template<class S> struct CtorRunner<manif::SE_2_3<S>> { using G = manif::SE_2_3<S>;
  static bool make(const Case& c, int id, G& r){ const auto& v = c.args.back();
    switch(id){ case 0: { Eigen::Quaternion<S> q; q.coeffs() = vec_from<S,Eigen::Matrix<S,4,1>>(c.args[1]); r = G(v3<S>(c.args[0]), q, v3<S>(v)); return true; }
                case 1: r = G(v3<S>(c.args[0]), Eigen::AngleAxis<S>(s0<S>(c.args[1]), v3<S>(c.args[2])), v3<S>(v)); return true;
                case 2: r = G(s0<S>(c.args[0],0), s0<S>(c.args[0],1), s0<S>(c.args[0],2), s0<S>(c.args[1],0), s0<S>(c.args[1],1), s0<S>(c.args[1],2), s0<S>(v,0), s0<S>(v,1), s0<S>(v,2)); return true;
                case 3: r = G(iso3<S>(c.args[0], c.args[1]), v3<S>(v)); return true; }
    return false; } };
template<class S> struct CtorRunner<manif::SGal3<S>> { using G = manif::SGal3<S>;
  static bool make(const Case& c, int id, G& r){ const auto& v = c.args[c.args.size()-2]; const S t = s0<S>(c.args.back());
    switch(id){ case 0: { Eigen::Quaternion<S> q; q.coeffs() = vec_from<S,Eigen::Matrix<S,4,1>>(c.args[1]); r = G(v3<S>(c.args[0]), q, v3<S>(v), t); return true; }
                case 1: r = G(v3<S>(c.args[0]), Eigen::AngleAxis<S>(s0<S>(c.args[1]), v3<S>(c.args[2])), v3<S>(v), t); return true;
                case 2: r = G(s0<S>(c.args[0],0), s0<S>(c.args[0],1), s0<S>(c.args[0],2), s0<S>(c.args[1],0), s0<S>(c.args[1],1), s0<S>(c.args[1],2), s0<S>(v,0), s0<S>(v,1), s0<S>(v,2), t); return true;
                case 3: r = G(iso3<S>(c.args[0], c.args[1]), v3<S>(v), t); return true; }
    return false; } };
template<class S, unsigned int N> struct CtorRunner<manif::Rn<S,N>> { using G = manif::Rn<S,N>;
  static bool make(const Case& c, int id, G& r){ if(id!=0) return false; r = G(vec_from<S,typename G::DataType>(c.args[0])); return true; } };

// setters (ids >= 10): quat(q) on SO3 / SE3, translation(t) on SE3
template<class G> struct SetRunner { static bool set(const Case&, int, G&){ return false; } };
template<class S> struct SetRunner<manif::SO3<S>> { static bool set(const Case& c, int id, manif::SO3<S>& X){
  if(id==10){ X.quat(vec_from<S,Eigen::Matrix<S,4,1>>(c.args[1])); return true; } return false; } };
template<class S> struct SetRunner<manif::SE3<S>> { static bool set(const Case& c, int id, manif::SE3<S>& X){
  if(id==10){ X.quat(vec_from<S,Eigen::Matrix<S,4,1>>(c.args[1])); return true; }
  if(id==11){ X.translation(v3<S>(c.args[1])); return true; } return false; } };

template<class G> static bool run_ctor(const Case& c, Out<typename G::Scalar>& o){
  using S = typename G::Scalar; int id = std::stoi(c.iarg);
  if(id < 10){ G r; if(!CtorRunner<G>::make(c,id,r)) throw std::logic_error("no such constructor"); o.mat(r.coeffs()); o.mat(r.transform()); return true; }
  if(id >= 20 && id <= 24){   // construction from views / assignment of raw data (every group); args[0] = the coefficients
    using DG = typename G::DataType; DG data = vec_from<S,DG>(c.args[0]); DG buf = data; G r = G::Identity();
    switch(id){
      case 20: { Eigen::Map<G> m(buf.data()); G t(m); r = t; break; }                  // G(Eigen::Map<G>)
      case 21: { Eigen::Map<const G> m(buf.data()); G t(m); r = t; break; }            // G(Eigen::Map<const G>)
      case 22: { r = data; break; }                                                    // X = data  (operator=(MatrixBase))
      case 23: { Eigen::Map<G> m(buf.data()); r = m; break; }                          // X = Map   (operator=(LieGroupBase<Other>)): not validated
      case 24: { DG buf2 = G::Identity().coeffs(); Eigen::Map<G> m(buf2.data()); m = data; r.coeffs() = buf2; break; }  // Map = data
    }
    o.mat(r.coeffs()); o.mat(r.transform()); return true;
  }
  G X; X.coeffs() = vec_from<S,typename G::DataType>(c.args[0]);       // raw write: no validation
  if(!SetRunner<G>::set(c,id,X)) throw std::logic_error("no such setter");
  o.mat(X.coeffs()); o.mat(X.transform()); return true;
}
