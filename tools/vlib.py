"""vlib.py — shared machinery: builds (Coq proofs, extracted OCaml model, C++ harness
over /repo's current working tree), running the correspondence, evidence, replays."""
import os, sys, subprocess, hashlib, json, time, shutil, re
sys.set_int_max_str_digits(0)
from concurrent.futures import ThreadPoolExecutor

VERIF = os.path.dirname(os.path.dirname(os.path.abspath(__file__)))
REPO = os.environ.get("VERIF_REPO", "/repo")
BUILD = os.path.join(VERIF, "build")
COQ = os.path.join(VERIF, "coq")
EXTRACT = os.path.join(VERIF, "extract")
HARNESS = os.path.join(VERIF, "harness")
JOBS = int(os.environ.get("VERIF_JOBS", "16"))

def sh(cmd, timeout=None, cwd=None, env=None, stdin=None):
    p = subprocess.run(cmd, shell=isinstance(cmd, str), cwd=cwd, env=env, input=stdin,
                       stdout=subprocess.PIPE, stderr=subprocess.STDOUT, timeout=timeout, text=True)
    return p.returncode, p.stdout

def sha_files(paths, extra=""):
    h = hashlib.sha256(extra.encode())
    for p in sorted(paths):
        h.update(p.encode())
        try:
            with open(p, "rb") as f: h.update(f.read())
        except OSError:
            h.update(b"<missing>")
    return h.hexdigest()[:20]

def walk(d, exts=None):
    out = []
    for root, _, files in os.walk(d):
        for f in files:
            if exts is None or os.path.splitext(f)[1] in exts:
                out.append(os.path.join(root, f))
    return out

_repo_hash = None
def repo_hash():
    """content hash of everything the harness binaries are built from"""
    global _repo_hash
    if _repo_hash is None:
        _repo_hash = sha_files(walk(os.path.join(REPO, "include")) + walk(os.path.join(REPO, "external")) +
                               walk(HARNESS, {".h", ".cpp", ".hpp"}))
    return _repo_hash

# ---------------------------------------------------------------- Coq side
def coq_makefile():
    mk = os.path.join(COQ, "Makefile")
    cp = os.path.join(COQ, "_CoqProject")
    if not os.path.exists(mk) or os.path.getmtime(mk) < os.path.getmtime(cp):
        rc, out = sh("coq_makefile -f _CoqProject -o Makefile", cwd=COQ, timeout=120)
        if rc != 0: raise RuntimeError("coq_makefile failed:\n" + out)

def coq_make(targets, timeout=3000, keep_going=True):
    """full .vo build of the given targets (never -vos/-vok). Returns (ok, log)."""
    coq_makefile()
    cmd = ["make", "-j%d" % JOBS] + (["-k"] if keep_going else []) + list(targets)
    rc, out = sh(cmd, cwd=COQ, timeout=timeout)
    return rc == 0, out

FORBIDDEN = re.compile(r"\b(Admitted|admit|Axiom|Parameter|Conjecture|Hypothesis|Variable|bypass_check|Unset Guard|type-in-type)\b")
def forbidden_scan():
    """no Admitted/admit/Axiom/Parameter/Conjecture anywhere; Variable/Hypothesis only inside sections."""
    bad = []
    for p in walk(COQ, {".v"}) + walk(EXTRACT, {".v"}):
        depth = 0
        txt = open(p).read()
        txt = re.sub(r"\(\*.*?\*\)", lambda m: " " * len(m.group(0)) if "\n" not in m.group(0) else re.sub(r"[^\n]", " ", m.group(0)), txt, flags=re.S)
        for ln, line in enumerate(txt.splitlines(), 1):
            s = line.strip()
            if re.match(r"Section\s", s): depth += 1
            if re.match(r"End\s", s) and depth > 0: depth -= 1
            for m in FORBIDDEN.finditer(line):
                w = m.group(1)
                if w in ("Variable", "Hypothesis") and depth > 0: continue
                bad.append("%s:%d: %s" % (os.path.relpath(p, VERIF), ln, w))
    return bad

def theorems_in(vfile):
    """names of the obligations (Theorem/Corollary) stated in a Properties file"""
    txt = open(os.path.join(COQ, vfile)).read()
    return re.findall(r"^\s*(?:Theorem|Corollary)\s+([A-Za-z0-9_']+)", txt, flags=re.M)

def assumptions_of(log_text):
    """parse the output of Print Assumptions blocks in a coqc log -> sorted list of axiom names"""
    ax = set()
    for m in re.finditer(r"^([A-Za-z_][A-Za-z0-9_.']*)\s*:", log_text, flags=re.M):
        ax.add(m.group(1))
    return sorted(ax)

def build_driver():
    """extract the model and build the OCaml driver; cached on the hash of the .v sources"""
    srcs = walk(COQ, {".v"}) + [os.path.join(EXTRACT, f) for f in ("Extract.v", "driver.ml", "groups.ml", "gen_names.py")]
    key = sha_files(srcs)
    drv = os.path.join(BUILD, "driver-" + key)
    if os.path.exists(drv): return drv
    os.makedirs(BUILD, exist_ok=True)
    ok, out = coq_make(["Run.vo"], keep_going=False)
    if not ok: raise RuntimeError("model does not compile:\n" + out[-3000:])
    rc, out = sh("coqc -Q ../coq Manif Extract.v", cwd=EXTRACT, timeout=600)
    if rc != 0: raise RuntimeError("extraction failed:\n" + out[-3000:])
    rc, out = sh("python3 gen_names.py model.mli names.ml && ocamlfind ocamlopt -package zarith -linkpkg -w -a -O2 "
                 "model.mli model.ml names.ml groups.ml driver.ml -o driver", cwd=EXTRACT, timeout=600)
    if rc != 0: raise RuntimeError("driver build failed:\n" + out[-3000:])
    shutil.copy(os.path.join(EXTRACT, "driver"), drv)
    return drv

# ---------------------------------------------------------------- C++ side
INCLUDES = ["-I%s/include" % REPO, "-I%s/external/tl" % REPO, "-I/usr/include/eigen3", "-I" + HARNESS]
def build_bin(name, source, defines=(), flags=("-std=c++11", "-O1"), libs=("-lgmpxx", "-lgmp", "-lmpfr"), compiler="g++", timeout=1500):
    """compile one harness binary from /repo's current tree; cache keyed on content hash + flags"""
    key = hashlib.sha256((repo_hash() + name + source + " ".join(defines) + " ".join(flags) + compiler).encode()).hexdigest()[:16]
    out = os.path.join(BUILD, "%s-%s" % (name, key))
    if os.path.exists(out): return out, ""
    os.makedirs(BUILD, exist_ok=True)
    cmd = [compiler] + list(flags) + list(defines) + INCLUDES + [os.path.join(HARNESS, source), "-o", out + ".tmp"] + list(libs)
    rc, log = sh(cmd, timeout=timeout)
    if rc != 0:
        return None, log
    os.replace(out + ".tmp", out)
    return out, log

def build_many(specs):
    """specs: list of dict(name, source, defines, flags, ...) -> dict name -> (path|None, log)"""
    res = {}
    with ThreadPoolExecutor(max_workers=JOBS) as ex:
        futs = {s["name"]: ex.submit(build_bin, **s) for s in specs}
        for n, f in futs.items(): res[n] = f.result()
    return res

def gc_build(keep=60):
    """keep the build cache bounded"""
    try:
        fs = sorted((os.path.getmtime(os.path.join(BUILD, f)), f) for f in os.listdir(BUILD))
        for _, f in fs[:-keep]:
            p = os.path.join(BUILD, f)
            if os.path.isfile(p): os.remove(p)
    except OSError:
        pass

# ---------------------------------------------------------------- evidence
def write_evidence(pid, ev):
    os.makedirs(os.path.join(VERIF, "evidence"), exist_ok=True)
    with open(os.path.join(VERIF, "evidence", pid + ".json"), "w") as f:
        json.dump(ev, f, indent=1, default=str)

def write_replay(pid, name, obj):
    d = os.path.join(VERIF, "replays", pid)
    os.makedirs(d, exist_ok=True)
    p = os.path.join(d, name)
    with open(p, "w") as f: json.dump(obj, f, indent=1, default=str)
    return p

def load_known():
    p = os.path.join(VERIF, "known_findings.jsonl")
    out = []
    if os.path.exists(p):
        for l in open(p):
            l = l.strip()
            if l and not l.startswith("#"): out.append(json.loads(l))
    return out
