(* RnProofs.v — C01 for the Rn model, for each dimension the library provides a typedef for (R1..R9). *)
From Coq Require Import Reals ZArith List Lra.
From Manif Require Import Scalar Mat Consts Group RInst Tac Rn Generic LieSpec.
Import ListNotations.
Local Open Scope R_scope.

Definition rn_valid (n : nat) (c : list R) : Prop := length c = n.
Definition homn (p : list R) : list R := p ++ [1].

Ltac destruct_len c H :=
  repeat (destruct c as [|? c]; cbn [length] in H; try discriminate H); clear H.

Ltac rn_core n :=
  refine (mkCore _ (rn_valid n) homn (fun _ => homn) _ _ _ _ _ _ _ _ _ _ _);
  cbn [g_compose g_inverse g_transform g_act g_tra g_actdim Rn]; unfold rn_valid, g_identity; cbn [g_exp g_dof Rn];
  unfold rn_compose, rn_inverse, rn_transform, rn_act, rn_exp, t_zero, homn; cbn [g_dof Rn];
  [ intros X Y HX HY; destruct_len X HX; destruct_len Y HY; reflexivity
  | intros X HX; destruct_len X HX; reflexivity
  | reflexivity
  | intros X Y HX HY; destruct_len X HX; destruct_len Y HY; mat_unfold; list_eq; ring
  | mat_unfold; list_eq; ring
  | intros X p HX Hp; destruct_len X HX; destruct_len p Hp; mat_unfold; list_eq; ring
  | intros X Y Z HX HY HZ; destruct_len X HX; destruct_len Y HY; destruct_len Z HZ; mat_unfold; list_eq; ring
  | intros X HX; destruct_len X HX; mat_unfold; list_eq; ring
  | intros X HX; destruct_len X HX; mat_unfold; list_eq; ring
  | intros X HX; destruct_len X HX; mat_unfold; list_eq; ring
  | intros X HX; destruct_len X HX; mat_unfold; list_eq; ring ].

Definition R1_core : GroupCore (Rn RS 1). Proof. rn_core 1%nat. Defined.
Definition R2_core : GroupCore (Rn RS 2). Proof. rn_core 2%nat. Defined.
Definition R3_core : GroupCore (Rn RS 3). Proof. rn_core 3%nat. Defined.
Definition R4_core : GroupCore (Rn RS 4). Proof. rn_core 4%nat. Defined.
Definition R5_core : GroupCore (Rn RS 5). Proof. rn_core 5%nat. Defined.
Definition R6_core : GroupCore (Rn RS 6). Proof. rn_core 6%nat. Defined.
Definition R7_core : GroupCore (Rn RS 7). Proof. rn_core 7%nat. Defined.
Definition R8_core : GroupCore (Rn RS 8). Proof. rn_core 8%nat. Defined.
Definition R9_core : GroupCore (Rn RS 9). Proof. rn_core 9%nat. Defined.
