(* ParamChain.v — the chain of ParamRun.run_op_chain closed for particular operations: the dual parts of the dual-number run are
   the derivatives of the REAL-NUMBER run along the seeded direction. *)
From Param Require Import Param.
From Coq Require Import Reals ZArith List Lra Lia.
From Coquelicot Require Import Coquelicot.
From Manif Require Import ParamBase Scalar RInst Dual DualProofs ParamDual Mat Consts Group SO2 SE2 Rn Run ParamRun Tac.
Import ListNotations.
Local Open Scope R_scope.

(* SE2 exp through the entry point (opcode OExp, no Jacobian requested): both branches, theta^2 <> eps *)
Theorem chain_SE2_exp eps x y th dx dy dth j : 0 < eps -> th * th <> eps -> (j < 4)%nat ->
  is_derive (fun h => entry 0 (@run_op RS eps GSE2 OExp [] 0%Z (at_h h [[x; y; th]] [[dx; dy; dth]])) 0 j) 0
    (snd (entry (0, 0) (@run_op (DS RS) (eps, 0) GSE2 OExp [] 0%Z (seed [[x; y; th]] [[dx; dy; dth]])) 0 j)).
Proof.
  intros He Hne Hj.
  assert (Hc : continuous (fun h => (th + h * dth) * (th + h * dth)) 0).
  { apply (ex_derive_continuous (fun h : R => (th + h * dth) * (th + h * dth))). auto_derive. exact I. }
  assert (EK : forall h, kltb (FSh h) (kmul (FSh h) (line1 th dth) (line1 th dth)) (fconst eps) = Rltb ((th + h * dth) * (th + h * dth)) eps) by (intros h; reflexivity).
  assert (E0 : kltb FS (kmul FS (line1 th dth) (line1 th dth)) (fconst eps) = Rltb (th * th) eps) by (cbn; f_equal; ring).
  set (rD := @run_op (DS RS) (eps, 0) GSE2 OExp [] 0%Z (seed [[x; y; th]] [[dx; dy; dth]])).
  assert (ED : exists o, rD = Ok [o] /\ length o = 4%nat).
  { unfold rD. cbn. unfold se2_exp. destruct (se2_AB _ _ _ _ _). eexists. split; reflexivity. }
  destruct ED as (o & ED & Lo). rewrite ED. cbn [entry nth].
  change o with (nth 0 [o] []) at 1.
  destruct (Rlt_dec (th * th) eps) as [Hlt|Hge].
  - apply (run_op_chain eps GSE2 OExp [] 0%Z [[x; y; th]] [[dx; dy; dth]] [o] 0 j); [|exact ED|cbn; lia|cbn [nth]; rewrite Lo; exact Hj|].
    + assert (Hloc : locally 0 (fun h => (th + h * dth) * (th + h * dth) < eps)).
      { apply (Hc (fun v => v < eps)). apply (open_lt eps). rewrite Rmult_0_l, Rplus_0_r. exact Hlt. }
      apply (filter_imp (fun h => (th + h * dth) * (th + h * dth) < eps)); [intros h Hh|exact Hloc].
      cbn [run_op group_of arg bit nth lineF combine map fst snd g_exp SE2 out1]. unfold se2_exp, se2_AB. cbn [vnth nth].
      rewrite EK, E0, (Rltb_lt_true _ _ Hh), (Rltb_lt_true _ _ Hlt). reflexivity.
    + cbn [run_op group_of arg bit nth lineF combine map fst snd g_exp SE2 out1 entry]. unfold se2_exp, se2_AB. cbn [vnth nth].
      rewrite E0, (Rltb_lt_true _ _ Hlt). destruct j as [|[|[|[|j]]]]; [| | | |exfalso; lia]; cbn; tauto.
  - assert (Hgt : eps < th * th) by lra. assert (Hth : th + 0 * dth <> 0) by (rewrite Rmult_0_l, Rplus_0_r; intros ->; lra).
    apply (run_op_chain eps GSE2 OExp [] 0%Z [[x; y; th]] [[dx; dy; dth]] [o] 0 j); [|exact ED|cbn; lia|cbn [nth]; rewrite Lo; exact Hj|].
    + assert (Hloc : locally 0 (fun h => eps < (th + h * dth) * (th + h * dth))).
      { apply (Hc (fun v => eps < v)). apply (open_gt eps). rewrite Rmult_0_l, Rplus_0_r. exact Hgt. }
      apply (filter_imp (fun h => eps < (th + h * dth) * (th + h * dth))); [intros h Hh|exact Hloc].
      cbn [run_op group_of arg bit nth lineF combine map fst snd g_exp SE2 out1]. unfold se2_exp, se2_AB. cbn [vnth nth].
      rewrite EK, E0, (Rltb_lt_false _ _ (Rlt_le _ _ Hh)), (Rltb_lt_false _ _ (Rlt_le _ _ Hgt)). reflexivity.
    + cbn [run_op group_of arg bit nth lineF combine map fst snd g_exp SE2 out1 entry]. unfold se2_exp, se2_AB. cbn [vnth nth].
      rewrite E0, (Rltb_lt_false _ _ (Rlt_le _ _ Hgt)). destruct j as [|[|[|[|j]]]]; [| | | |exfalso; lia]; cbn; tauto.
Qed.

(* operations that make no comparison: the run with comparisons decided at h IS the run with comparisons decided at 0 (by
   computation), and no side condition arises: the dual parts are the derivatives, unconditionally *)
Ltac chain_free g op x dx o j :=
  apply (run_op_chain _ g op [] 0%Z x dx o 0 j);
  [apply filter_forall; intros h; reflexivity | reflexivity | cbn; lia | cbn [nth length]; lia | ].

Theorem chain_SE2_act eps tx ty c s px py dtx dty dc ds dpx dpy j : (j < 2)%nat ->
  is_derive (fun h => entry 0 (@run_op RS eps GSE2 OAct [] 0%Z (at_h h [[tx; ty; c; s]; [px; py]] [[dtx; dty; dc; ds]; [dpx; dpy]])) 0 j) 0
    (snd (entry (0, 0) (@run_op (DS RS) (eps, 0) GSE2 OAct [] 0%Z (seed [[tx; ty; c; s]; [px; py]] [[dtx; dty; dc; ds]; [dpx; dpy]])) 0 j)).
Proof.
  intros Hj.
  set (rD := @run_op (DS RS) (eps, 0) GSE2 OAct [] 0%Z (seed [[tx; ty; c; s]; [px; py]] [[dtx; dty; dc; ds]; [dpx; dpy]])).
  assert (ED : exists o, rD = Ok [o] /\ length o = 2%nat) by (eexists; split; reflexivity).
  destruct ED as (o & ED & Lo). rewrite ED. cbn [entry nth]. change o with (nth 0 [o] []) at 1.
  apply (run_op_chain eps GSE2 OAct [] 0%Z [[tx; ty; c; s]; [px; py]] [[dtx; dty; dc; ds]; [dpx; dpy]] [o] 0 j);
    [apply filter_forall; intros h; reflexivity|exact ED|cbn; lia|cbn [nth]; rewrite Lo; exact Hj|].
  destruct j as [|[|j]]; [| |exfalso; lia]; cbn; tauto.
Qed.

Print Assumptions chain_SE2_exp.

(* SO2 log (atan2 of the imaginary and real parts; no comparison in the program): away from the cut and from real = 0 *)
Theorem chain_SO2_log eps re im dre dim : (0 < re \/ (re < 0 /\ im <> 0)) ->
  is_derive (fun h => entry 0 (@run_op RS eps GSO2 OLog [] 0%Z (at_h h [[re; im]] [[dre; dim]])) 0 0) 0
    (snd (entry (0, 0) (@run_op (DS RS) (eps, 0) GSO2 OLog [] 0%Z (seed [[re; im]] [[dre; dim]])) 0 0)).
Proof.
  intros Hc.
  set (rD := @run_op (DS RS) (eps, 0) GSO2 OLog [] 0%Z (seed [[re; im]] [[dre; dim]])).
  assert (ED : exists o, rD = Ok [o] /\ length o = 1%nat) by (eexists; split; reflexivity).
  destruct ED as (o & ED & Lo). rewrite ED. cbn [entry nth]. change o with (nth 0 [o] []) at 1.
  apply (run_op_chain eps GSO2 OLog [] 0%Z [[re; im]] [[dre; dim]] [o] 0 0);
    [apply filter_forall; intros h; reflexivity|exact ED|cbn; lia|cbn [nth]; rewrite Lo; lia|].
  cbn. rewrite !Rmult_0_l, !Rplus_0_r. tauto.
Qed.
Print Assumptions chain_SO2_log.

(* SE2 log on its closed-form branch: X = (x, y, re, im) off the cut of atan2, theta = atan2(im, re) with theta^2 > eps.
   The one comparison (theta^2 < eps) is stable near h = 0 because theta(h) is continuous there (tracks_atan2). *)
Theorem chain_SE2_log eps x y re im dx dy dre dim j : 0 < eps -> (0 < re \/ (re < 0 /\ im <> 0)) ->
  eps < atan2 im re * atan2 im re -> (j < 3)%nat ->
  is_derive (fun h => entry 0 (@run_op RS eps GSE2 OLog [] 0%Z (at_h h [[x; y; re; im]] [[dx; dy; dre; dim]])) 0 j) 0
    (snd (entry (0, 0) (@run_op (DS RS) (eps, 0) GSE2 OLog [] 0%Z (seed [[x; y; re; im]] [[dx; dy; dre; dim]])) 0 j)).
Proof.
  intros He Hcut Hgt Hj.
  set (thf := fun h : R => atan2 (im + h * dim) (re + h * dre)).
  assert (Dth : is_derive thf 0 ((re * dim - im * dre) / (re * re + im * im))).
  { pose proof (tracks_atan2 (fun h => im + h * dim) (fun h => re + h * dre) (im, dim) (re, dre) (tracks_id im dim) (tracks_id re dre) Hcut) as [_ D].
    exact D. }
  assert (Hc : continuous (fun h => thf h * thf h) 0).
  { apply (ex_derive_continuous (fun h => thf h * thf h)). eexists. apply (is_derive_mult thf thf 0 _ _ Dth Dth). intros; apply Rmult_comm. }
  assert (T0 : thf 0 = atan2 im re) by (unfold thf; rewrite !Rmult_0_l, !Rplus_0_r; reflexivity).
  assert (Hloc : locally 0 (fun h => eps < thf h * thf h)).
  { apply (Hc (fun v => eps < v)). apply (open_gt eps). rewrite T0. exact Hgt. }
  set (rD := @run_op (DS RS) (eps, 0) GSE2 OLog [] 0%Z (seed [[x; y; re; im]] [[dx; dy; dre; dim]])).
  assert (ED : exists o, rD = Ok [o] /\ length o = 3%nat).
  { unfold rD. cbn [run_op group_of arg bit nth seed combine map fst snd g_log SE2 out1]. unfold se2_log. destruct (se2_AB _ _ _ _ _). eexists. split; reflexivity. }
  destruct ED as (o & ED & Lo). rewrite ED. cbn [entry nth]. change o with (nth 0 [o] []) at 1.
  assert (EKh : forall h, kltb (FSh h) (kmul (FSh h) (se2_angle FS [line1 x dx; line1 y dy; line1 re dre; line1 im dim]) (se2_angle FS [line1 x dx; line1 y dy; line1 re dre; line1 im dim])) (fconst eps)
                          = Rltb (thf h * thf h) eps) by (intros h; reflexivity).
  assert (EK0 : kltb FS (kmul FS (se2_angle FS [line1 x dx; line1 y dy; line1 re dre; line1 im dim]) (se2_angle FS [line1 x dx; line1 y dy; line1 re dre; line1 im dim])) (fconst eps)
                = Rltb (thf 0 * thf 0) eps) by reflexivity.
  apply (run_op_chain eps GSE2 OLog [] 0%Z [[x; y; re; im]] [[dx; dy; dre; dim]] [o] 0 j); [|exact ED|cbn; lia|cbn [nth]; rewrite Lo; exact Hj|].
  - apply (filter_imp (fun h => eps < thf h * thf h)); [intros h Hh|exact Hloc].
    cbn [run_op group_of arg bit nth lineF combine map fst snd g_log SE2 out1]. unfold se2_log, se2_AB.
    change (se2_angle (FSh h)) with (se2_angle FS). rewrite EKh, EK0, T0.
    rewrite (Rltb_lt_false _ _ (Rlt_le _ _ Hh)), (Rltb_lt_false _ _ (Rlt_le _ _ Hgt)). reflexivity.
  - cbn [run_op group_of arg bit nth lineF combine map fst snd g_log SE2 out1 entry]. unfold se2_log, se2_AB. rewrite EK0, T0, (Rltb_lt_false _ _ (Rlt_le _ _ Hgt)).
    assert (Hth : atan2 im re <> 0) by (intros E0; rewrite E0 in Hgt; lra).
    assert (Hc0 : 0 < re + 0 * dre \/ (re + 0 * dre < 0 /\ im + 0 * dim <> 0)) by (rewrite !Rmult_0_l, !Rplus_0_r; exact Hcut).
    assert (Hth0 : atan2 (im + 0 * dim) (re + 0 * dre) <> 0) by (rewrite !Rmult_0_l, !Rplus_0_r; exact Hth).
    (* A^2 + B^2 <> 0: A = sin/theta-like built from re, im; shown through its value *)
    assert (Hne : im <> 0 \/ re <> 1).
    { destruct (Req_dec im 0) as [E1|E1]; [|left; exact E1]. destruct (Req_dec re 1) as [E2|E2]; [|right; exact E2].
      exfalso. apply Hth. rewrite E1, E2. unfold atan2. destruct (Rlt_dec 0 1); [|lra]. replace (0 / 1) with 0 by field. apply atan_0. }
    assert (Hden : im / atan2 im re * (im / atan2 im re) + (1 - re) / atan2 im re * ((1 - re) / atan2 im re) <> 0).
    { apply Rgt_not_eq. replace (im / atan2 im re * (im / atan2 im re) + (1 - re) / atan2 im re * ((1 - re) / atan2 im re))
        with ((im * im + (1 - re) * (1 - re)) / (atan2 im re * atan2 im re)) by (field; exact Hth).
      pose proof (Rle_0_sqr im) as S1. pose proof (Rle_0_sqr (1 - re)) as S2. unfold Rsqr in S1, S2.
      apply Rdiv_lt_0_compat; [destruct Hne as [H|H]; [pose proof (Rsqr_pos_lt im H) as S3|pose proof (Rsqr_pos_lt (1 - re) ltac:(lra)) as S3]; unfold Rsqr in S3; lra|].
      pose proof (Rsqr_pos_lt (atan2 im re) Hth) as S4. unfold Rsqr in S4. exact S4. }
    destruct j as [|[|[|j]]]; [| | |exfalso; lia]; cbn; rewrite ?Rmult_0_l, ?Rplus_0_r in *; repeat split; try exact I; try assumption.
Qed.
Print Assumptions chain_SE2_log.
