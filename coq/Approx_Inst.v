(* Approx_Inst.v — the per-group facts property C18 needs: log(Identity) = 0 (so X.isApprox(X) for
   every valid X), the length of log, and log(Z^-1) = -log(Z) (symmetry) for SO2 / SO3 / Rn. *)
From Coq Require Import Reals ZArith List Lra Bool.
From Manif Require Import Scalar Mat Consts Group RInst Tac Generic LieSpec Atan2 SO2 SE2 SO3 SE3 SE23 SGal3 Rn
  SE2Proofs SO3Proofs SE23Proofs RnProofs Approx.
Import ListNotations.
Local Open Scope R_scope.

Section P.
Variable eps : R.
Hypothesis eps_pos : 0 < eps.

Lemma atan2_0_1 : atan2 0 1 = 0.
Proof. unfold atan2. destruct (Rlt_dec 0 1); [|lra]. replace (0 / 1) with 0 by field. apply atan_0. Qed.

Lemma so2_log_identity : g_log (SO2 RS eps) (g_identity (SO2 RS eps)) = @vzero RS 1.
Proof. rewrite so2_identity_eq by exact eps_pos. cbn. unfold so2_log, so2_angle, so2_imag, so2_real. mat_unfold. rewrite atan2_0_1. reflexivity. Qed.

Lemma se2_log_identity : g_log (SE2 RS eps) (g_identity (SE2 RS eps)) = @vzero RS 3.
Proof.
  rewrite se2_identity_eq by exact eps_pos. cbn. unfold se2_log, se2_AB, se2_angle, se2_imag, se2_real, se2_x, se2_y, c_1_6d, c_half, c_1_24d. mat_unfold.
  rewrite atan2_0_1. replace (0 * 0) with 0 by ring. rewrite (Rltb_lt_true 0 eps) by exact eps_pos.
  list_eq; field.
Qed.

Lemma so3_log_id_eq : so3_log RS eps [0; 0; 0; 1] = [0; 0; 0].
Proof.
  unfold so3_log, qw. mat_unfold. replace (0 * 0 + (0 * 0 + (0 * 0 + 0))) with 0 by ring.
  rewrite (Rltb_lt_false eps 0) by lra. rewrite (Rltb_lt_false 1 0) by lra. list_eq; ring.
Qed.
Lemma so3_log_identity : g_log (SO3 RS eps) (g_identity (SO3 RS eps)) = @vzero RS 3.
Proof. rewrite so3_identity_eq by exact eps_pos. cbn. apply so3_log_id_eq. Qed.

Lemma so3_ljacinv_zero : so3_ljacinv RS eps [0; 0; 0] = [[1; 0; 0]; [0; 1; 0]; [0; 0; 1]].
Proof.
  unfold so3_ljacinv, so3_hat, c_half, c_1_12d. mat_unfold. replace (0 * 0 + (0 * 0 + (0 * 0 + 0))) with 0 by ring.
  rewrite (Rltb_lt_false eps 0) by lra. cbn [negb]. mat_unfold. list_eq; field.
Qed.

Lemma se3_log_identity : g_log (SE3 RS eps) (g_identity (SE3 RS eps)) = @vzero RS 6.
Proof.
  rewrite se3_identity_eq by exact eps_pos. cbn [g_log SE3]. unfold se3_log, se3_q, se3_t. cbn [vslice skipn firstn].
  cbn [K RS]. rewrite so3_log_id_eq, so3_ljacinv_zero. mat_unfold. list_eq; ring.
Qed.
Lemma se23_log_identity : g_log (SE23 RS eps) (g_identity (SE23 RS eps)) = @vzero RS 9.
Proof.
  rewrite se23_identity_eq by exact eps_pos. cbn [g_log SE23]. unfold se23_log, se23_q, se23_t, se23_v. cbn [vslice skipn firstn].
  cbn [K RS]. rewrite so3_log_id_eq, so3_ljacinv_zero. mat_unfold. list_eq; ring.
Qed.
Lemma sg_log_identity : g_log (SGal3 RS eps) (g_identity (SGal3 RS eps)) = @vzero RS 10.
Proof.
  rewrite sg_identity_eq by exact eps_pos. cbn [g_log SGal3]. unfold sg_log, sg_q, sg_p, sg_v, sg_t. cbn [vslice skipn firstn].
  cbn [K RS]. rewrite so3_log_id_eq, so3_ljacinv_zero. unfold fillE, I33, so3_hat, c_half, c_1_6d. mat_unfold.
  replace (0 * 0 + (0 * 0 + (0 * 0 + 0))) with 0 by ring.
  repeat rewrite (Rltb_lt_false eps 0) by lra. repeat rewrite (Rltb_lt_true 0 eps) by exact eps_pos. cbn [negb]. mat_unfold. list_eq; ring.
Qed.

(* X.isApprox(X, e) for every valid X and every e > 0, per group *)
Theorem so2_isApprox_refl X e : so2_valid X -> 0 < e -> g_isApprox (SO2 RS eps) X X e = true.
Proof. apply (g_isApprox_refl _ (SO2_core eps eps_pos) so2_log_identity). Qed.
Theorem se2_isApprox_refl X e : se2_valid X -> 0 < e -> g_isApprox (SE2 RS eps) X X e = true.
Proof. apply (g_isApprox_refl _ (SE2_core eps eps_pos) se2_log_identity). Qed.
Theorem so3_isApprox_refl X e : so3_valid X -> 0 < e -> g_isApprox (SO3 RS eps) X X e = true.
Proof. apply (g_isApprox_refl _ (SO3_core eps eps_pos) so3_log_identity). Qed.
Theorem se3_isApprox_refl X e : se3_valid X -> 0 < e -> g_isApprox (SE3 RS eps) X X e = true.
Proof. apply (g_isApprox_refl _ (SE3_core eps eps_pos) se3_log_identity). Qed.
Theorem se23_isApprox_refl X e : se23_valid X -> 0 < e -> g_isApprox (SE23 RS eps) X X e = true.
Proof. apply (g_isApprox_refl _ (SE23_core eps eps_pos) se23_log_identity). Qed.
Theorem sg_isApprox_refl X e : sg_valid X -> 0 < e -> g_isApprox (SGal3 RS eps) X X e = true.
Proof. apply (g_isApprox_refl _ (SGal3_core eps eps_pos) sg_log_identity). Qed.

(* ---- SO3: the two coefficient vectors of one rotation are approximately equal, and symmetry ---- *)
Lemma so3_log_len c : length (so3_log RS eps c) = length (firstn 3 c).
Proof. unfold so3_log, vscale_r. rewrite map_length. reflexivity. Qed.

(* log of the conjugate quaternion is the opposite tangent (any quaternion, any hemisphere) *)
Lemma so3_log_conj x y z w : so3_log RS eps [- x; - y; - z; w] = @vneg RS (so3_log RS eps [x; y; z; w]).
Proof.
  unfold so3_log, qw. cbn [firstn]. mat_unfold.
  replace (- x * - x + (- y * - y + (- z * - z + 0))) with (x * x + (y * y + (z * z + 0))) by ring.
  match goal with |- context [if ?b then ?u else ?v] => set (k := if b then u else v) end. list_eq; ring.
Qed.
Lemma so3_inverse_eq x y z w : so3_inverse RS [x; y; z; w] = [- x; - y; - z; w].
Proof. reflexivity. Qed.

Theorem so3_isApprox_sym X Y e : so3_valid X -> so3_valid Y -> 0 < e ->
  g_isApprox (SO3 RS eps) X Y e = g_isApprox (SO3 RS eps) Y X e.
Proof.
  intros HX HY He. pose (C := SO3_core eps eps_pos).
  assert (HZ : so3_valid (g_compose (SO3 RS eps) (g_inverse (SO3 RS eps) Y) X)).
  { apply (gc_compose_valid _ C); [apply (gc_inverse_valid _ C)|]; assumption. }
  apply (g_isApprox_sym _ C); try assumption.
  - unfold rminus_val. destruct HZ as (x & y & z & w & -> & _). cbn [g_log SO3 g_dof]. rewrite so3_log_len. reflexivity.
  - unfold rminus_val. destruct HZ as (x & y & z & w & -> & _). cbn [g_log SO3 g_inverse]. rewrite so3_inverse_eq. apply so3_log_conj.
Qed.

(* q and -q denote the same rotation: same logarithm (off the exact half turn w = 0, where the rotation has
   two principal logarithms), and X.isApprox(-X) *)
Lemma atan2_opp_pos y x : 0 < x -> atan2 (- y) x = - atan2 y x.
Proof.
  intros Hx. unfold atan2. destruct (Rlt_dec 0 x); [|lra].
  replace (- y / x) with (- (y / x)) by (field; lra). apply atan_opp.
Qed.

Lemma so3_log_neg x y z w : w <> 0 ->
  so3_log RS eps [- x; - y; - z; - w] = so3_log RS eps [x; y; z; w].
Proof.
  intros Hw. unfold so3_log, qw. cbn [firstn]. mat_unfold.
  replace (- x * - x + (- y * - y + (- z * - z + 0))) with (x * x + (y * y + (z * z + 0))) by ring.
  set (s2 := x * x + (y * y + (z * z + 0))).
  destruct (Rltb eps s2) eqn:Es; cbn [negb].
  - destruct (Rltb w 0) eqn:Ew.
    + apply Rltb_true in Ew. rewrite (Rltb_lt_false (- w) 0) by lra.
      rewrite (atan2_opp_pos (sqrt s2) (- w)) by lra.
      assert (Hs : sqrt s2 <> 0).
      { apply Rltb_true in Es. intros E0. apply sqrt_eq_0 in E0; lra. }
      list_eq; field; exact Hs.
    + apply Rltb_false in Ew. rewrite (Rltb_lt_true (- w) 0) by lra.
      replace (- - w) with w by ring. rewrite (atan2_opp_pos (sqrt s2) w) by lra.
      assert (Hs : sqrt s2 <> 0).
      { apply Rltb_true in Es. intros E0. apply sqrt_eq_0 in E0; lra. }
      list_eq; field; exact Hs.
  - destruct (Rltb w 0) eqn:Ew.
    + apply Rltb_true in Ew. rewrite (Rltb_lt_false (- w) 0) by lra. list_eq; ring.
    + apply Rltb_false in Ew. rewrite (Rltb_lt_true (- w) 0) by lra. list_eq; ring.
Qed.

Theorem so3_isApprox_double_cover x y z w e : n4 x y z w = 1 -> 0 < e ->
  g_isApprox (SO3 RS eps) [x; y; z; w] [- x; - y; - z; - w] e = true.
Proof.
  intros Hn He.
  assert (Hr : rminus_val (SO3 RS eps) [x; y; z; w] [- x; - y; - z; - w] = [0; 0; 0]).
  { unfold rminus_val. cbn [g_log g_compose g_inverse SO3]. rewrite so3_inverse_eq.
    rewrite so3_compose_valid_eq by (try exact eps_pos; unfold n4 in *; rewrite <- Hn; ring).
    rewrite quat_mul_eq.
    replace (- w * x + - - x * w + - - y * z - - - z * y) with (- 0) by ring.
    replace (- w * y + - - y * w + - - z * x - - - x * z) with (- 0) by ring.
    replace (- w * z + - - z * w + - - x * y - - - y * x) with (- 0) by ring.
    replace (- w * w - - - x * x - - - y * y - - - z * z) with (- n4 x y z w) by (unfold n4; ring).
    rewrite Hn. rewrite (so3_log_neg 0 0 0 1) by lra. apply so3_log_id_eq. }
  apply g_isApprox_threshold; [exact He | rewrite Hr; reflexivity |].
  rewrite Hr. repeat constructor; rewrite Rabs_R0; lra.
Qed.

(* ---- SO2 ---- *)
Lemma atan2_opp_y y x : ~ (y = 0 /\ x < 0) -> atan2 (- y) x = - atan2 y x.
Proof.
  intros H. unfold atan2.
  destruct (Rlt_dec 0 x).
  - replace (- y / x) with (- (y / x)) by (field; lra). apply atan_opp.
  - destruct (Rlt_dec x 0).
    + replace (- y / x) with (- (y / x)) by (field; lra). rewrite atan_opp.
      destruct (Rle_dec 0 (- y)), (Rle_dec 0 y); try lra.
    + destruct (Rlt_dec 0 (- y)), (Rlt_dec (- y) 0), (Rlt_dec 0 y), (Rlt_dec y 0); lra.
Qed.

Theorem so2_isApprox_sym X Y e : so2_valid X -> so2_valid Y -> 0 < e ->
  (* the relative rotation is not exactly a half turn *)
  (forall r i, g_compose (SO2 RS eps) (g_inverse (SO2 RS eps) Y) X = [r; i] -> ~ (i = 0 /\ r < 0)) ->
  g_isApprox (SO2 RS eps) X Y e = g_isApprox (SO2 RS eps) Y X e.
Proof.
  intros HX HY He Hpi. pose (C := SO2_core eps eps_pos).
  assert (HZ : so2_valid (g_compose (SO2 RS eps) (g_inverse (SO2 RS eps) Y) X)).
  { apply (gc_compose_valid _ C); [apply (gc_inverse_valid _ C)|]; assumption. }
  apply (g_isApprox_sym _ C); try assumption.
  - reflexivity.
  - unfold rminus_val. destruct HZ as (r & i & E & _). specialize (Hpi r i E). rewrite E.
    cbn [g_log g_inverse SO2]. unfold so2_log, so2_inverse, so2_angle, so2_real, so2_imag. mat_unfold.
    rewrite atan2_opp_y by exact Hpi. reflexivity.
Qed.

End P.

