(* DcProofs.v — property C17: the index logic of decasteljau() (Algorithms.v: dc_plan, with the C++ integer
   types explicit) over ALL sizes: for 3 <= N, 2 <= d <= N, 1 <= k (and N, k*d below 2^31 so that no unsigned
   arithmetic wraps) the plan is the maximal number of consecutive windows of d control points overlapping by one
   point, every index is inside the trajectory, fewer than d-1 trailing points are left, a closed curve adds exactly
   one window wrapping to the start, and every window yields the same number of curve points. *)
From Coq Require Import ZArith List Lia Bool.
From Manif Require Import Scalar Algorithms.
Import ListNotations.
Local Open Scope Z_scope.

Lemma u32_small z : 0 <= z < 4294967296 -> u32 z = z.
Proof. intros H. unfold u32. apply Z.mod_small. exact H. Qed.
Lemma u64_small z : 0 <= z < 18446744073709551616 -> u64 z = z.
Proof. intros H. unfold u64. apply Z.mod_small. exact H. Qed.

Definition win_spec (d t : Z) : list Z := zseq (t * (d - 1)) (Z.to_nat d).

Lemma zseq_length a n : length (zseq a n) = n.
Proof. unfold zseq. rewrite map_length, seq_length. reflexivity. Qed.
Lemma zseq_In a n i : In i (zseq a n) <-> a <= i < a + Z.of_nat n.
Proof.
  unfold zseq. rewrite in_map_iff. split.
  - intros (j & <- & Hj). apply in_seq in Hj. lia.
  - intros H. exists (Z.to_nat (i - a)). split; [lia|]. apply in_seq. lia.
Qed.
Lemma zseq_nth a n j : (j < n)%nat -> nth j (zseq a n) 0 = a + Z.of_nat j.
Proof. intros H. unfold zseq. rewrite (nth_indep _ 0 (a + Z.of_nat 0)) by (rewrite map_length, seq_length; exact H).
  rewrite (map_nth (fun i => a + Z.of_nat i)). rewrite seq_nth by exact H. reflexivity. Qed.

Lemma dc_window_spec d t : 2 <= d -> 0 <= t -> t * (d - 1) + d < 4294967296 -> dc_window d t = win_spec d t.
Proof.
  intros Hd Ht Hb. unfold dc_window, win_spec, zseq. apply map_ext_in. intros n Hn. apply in_seq in Hn.
  rewrite (u32_small (d - 1)) by nia. rewrite (u32_small (t * (d - 1))) by nia. apply u32_small. nia.
Qed.

Definition nseg_spec (N d : Z) : Z := (N - d) / (d - 1) + 1.

Lemma nseg_bounds N d : 2 <= d -> d <= N ->
  1 <= nseg_spec N d /\ (nseg_spec N d - 1) * (d - 1) + d <= N /\ N - 1 - nseg_spec N d * (d - 1) < d - 1 /\ 0 <= N - 1 - nseg_spec N d * (d - 1).
Proof.
  intros Hd HN. unfold nseg_spec.
  pose proof (Z.div_mod (N - d) (d - 1) ltac:(lia)) as E. pose proof (Z.mod_pos_bound (N - d) (d - 1) ltac:(lia)) as B.
  assert (0 <= (N - d) / (d - 1)) by (apply Z.div_pos; lia). nia.
Qed.

Lemma dc_nsegments_spec N d : 2 <= d -> d <= N -> N < 2147483648 -> dc_nsegments N d = nseg_spec N d.
Proof.
  intros Hd HN Hb. unfold dc_nsegments, nseg_spec. rewrite (u64_small (N - d)) by lia. rewrite (u32_small (d - 1)) by lia.
  apply u32_small. assert (0 <= (N - d) / (d - 1)) by (apply Z.div_pos; lia).
  assert ((N - d) / (d - 1) <= N - d) by (apply Z.div_le_upper_bound; nia). lia.
Qed.

(* the windows the open-curve plan consists of *)
Definition open_windows (N d : Z) : list (list Z) := map (fun t => win_spec d (Z.of_nat t)) (seq 0 (Z.to_nat (nseg_spec N d))).
Definition closed_window (N d : Z) : list Z :=
  let last := nseg_spec N d * (d - 1) in
  zseq last (Z.to_nat (N - last)) ++ zseq 0 (Z.to_nat (d - (N - 1 - last) - 1)).
Definition seg_points (d k : Z) : Z := if Z.eqb d 2 then k else k * d.

Theorem dc_plan_spec N d k closed : 3 <= N -> 2 <= d -> d <= N -> 1 <= k -> N < 2147483648 -> k * d < 2147483648 ->
  dc_plan N d k closed = DcOk (open_windows N d ++ (if closed then [closed_window N d] else [])) (seg_points d k).
Proof.
  intros HN Hd HdN Hk HbN Hbk. unfold dc_plan.
  replace (Z.ltb 2 N) with true by (symmetry; apply Z.ltb_lt; lia).
  replace (Z.leb d N) with true by (symmetry; apply Z.leb_le; lia).
  replace (Z.ltb 0 k) with true by (symmetry; apply Z.ltb_lt; lia). cbn [negb].
  rewrite dc_nsegments_spec by lia. destruct (nseg_bounds N d Hd HdN) as (B1 & B2 & B3 & B4).
  assert (Hws : map (fun t : nat => dc_window d (Z.of_nat t)) (seq 0 (Z.to_nat (nseg_spec N d))) = open_windows N d).
  { unfold open_windows. apply map_ext_in. intros t Ht. apply in_seq in Ht. apply dc_window_spec; nia. }
  rewrite Hws.
  assert (Hsk : (if Z.eqb d 2 then k else u32 (k * d)) = seg_points d k).
  { unfold seg_points. destruct (Z.eqb d 2); [reflexivity|]. apply u32_small. nia. }
  rewrite Hsk.
  rewrite (u32_small (d - 1)) by lia. rewrite (u32_small (nseg_spec N d * (d - 1))) by nia. rewrite (u64_small (N - 1)) by lia.
  replace (Z.leb (nseg_spec N d * (d - 1)) (N - 1)) with true by (symmetry; apply Z.leb_le; lia).
  destruct closed; cbn [andb]; [|rewrite app_nil_r; reflexivity].
  unfold dc_closed_window. rewrite (u32_small (d - 1)) by lia. rewrite (u32_small (nseg_spec N d * (d - 1))) by nia.
  rewrite (u32_small (N - 1 - nseg_spec N d * (d - 1))) by lia.
  rewrite (u32_small (d - (N - 1 - nseg_spec N d * (d - 1)) - 1)) by lia.
  replace (Z.ltb 2147483648 (d - (N - 1 - nseg_spec N d * (d - 1)) - 1)) with false by (symmetry; apply Z.ltb_ge; lia).
  reflexivity.
Qed.

(* ---- what the plan is ---- *)
Lemma open_windows_length N d : length (open_windows N d) = Z.to_nat (nseg_spec N d).
Proof. unfold open_windows. rewrite map_length, seq_length. reflexivity. Qed.

Lemma open_window_nth N d t : (t < Z.to_nat (nseg_spec N d))%nat ->
  nth t (open_windows N d) [] = win_spec d (Z.of_nat t).
Proof.
  intros H. unfold open_windows. rewrite (nth_indep _ [] (win_spec d (Z.of_nat 0))) by (rewrite map_length, seq_length; exact H).
  rewrite (map_nth (fun t => win_spec d (Z.of_nat t))). rewrite seq_nth by exact H. reflexivity.
Qed.

Theorem open_windows_wf N d : 2 <= d -> d <= N ->
  Forall (fun w => length w = Z.to_nat d /\ Forall (fun i => 0 <= i < N) w) (open_windows N d).
Proof.
  intros Hd HN. destruct (nseg_bounds N d Hd HN) as (B1 & B2 & B3 & B4).
  unfold open_windows. apply Forall_forall. intros w Hw. apply in_map_iff in Hw. destruct Hw as (t & <- & Ht). apply in_seq in Ht.
  unfold win_spec. split; [apply zseq_length|]. apply Forall_forall. intros i Hi. apply zseq_In in Hi. nia.
Qed.

(* consecutive windows overlap by exactly one control point: the last index of window t is the first of window t+1 *)
Theorem open_windows_overlap d t : 2 <= d -> 0 <= t ->
  nth (Z.to_nat d - 1) (win_spec d t) 0 = nth 0 (win_spec d (t + 1)) 0 /\
  nth 0 (win_spec d (t + 1)) 0 = (t + 1) * (d - 1).
Proof.
  intros Hd Ht. unfold win_spec. rewrite !zseq_nth by lia. lia.
Qed.

(* maximal: one more window would not fit, and fewer than d-1 trailing points are left unused *)
Theorem open_windows_maximal N d : 2 <= d -> d <= N ->
  N < nseg_spec N d * (d - 1) + d /\ N - 1 - (nseg_spec N d - 1) * (d - 1) - (d - 1) < d - 1 /\
  (nseg_spec N d - 1) * (d - 1) + d <= N.
Proof. intros Hd HN. destruct (nseg_bounds N d Hd HN) as (B1 & B2 & B3 & B4). lia. Qed.

Theorem closed_window_wf N d : 2 <= d -> d <= N ->
  length (closed_window N d) = Z.to_nat d /\ Forall (fun i => 0 <= i < N) (closed_window N d) /\
  nth 0 (closed_window N d) 0 = nseg_spec N d * (d - 1).
Proof.
  intros Hd HN. destruct (nseg_bounds N d Hd HN) as (B1 & B2 & B3 & B4). unfold closed_window. cbv zeta. repeat split.
  - rewrite app_length, !zseq_length. lia.
  - apply Forall_app. split; apply Forall_forall; intros i Hi; apply zseq_In in Hi; lia.
  - rewrite app_nth1 by (rewrite zseq_length; lia). rewrite zseq_nth by lia. lia.
Qed.

Theorem dc_plan_rejects N d k closed : N < 3 \/ N < d \/ k <= 0 -> dc_plan N d k closed = DcRuntimeError.
Proof.
  intros H. unfold dc_plan.
  destruct (Z.ltb 2 N) eqn:E1; cbn [negb]; [|reflexivity]. apply Z.ltb_lt in E1.
  destruct (Z.leb d N) eqn:E2; cbn [negb]; [|reflexivity]. apply Z.leb_le in E2.
  destruct (Z.ltb 0 k) eqn:E3; cbn [negb]; [|reflexivity]. apply Z.ltb_lt in E3. lia.
Qed.
