"""props.py — per-property configuration and the generic run loop (see vcheck.py, DESIGN.md 3.6)."""
import os, sys, json, time, zlib, random
from fractions import Fraction as Fr
import vlib, corr, vcheck, gen2
from gen import G, fs, EPS_D
from vcheck import Violation

BASE_GROUPS = ["SO2", "SE2", "SO3", "SE3", "SE23", "SGal3", "R1", "R3", "R5"]

def maxabs(case):
    m = Fr(0)
    for a in case["args"]:
        for x in a:
            if abs(x) > m: m = abs(x)
    return m

# predicate ops: argument signature (same letters as corr.OPSIG) — registered into corr.OPSIG
PRED_SIG = {
    "P01": ("GHHV", 0),
    "P07": ("TTT", 0),
    "P06": ("GHTT", 0), "P06S": ("T", 0), "P04": ("GHT", 0), "P05": ("GHTV", 0), "J05": ("GHTV", 0), "P09": ("GHTV", 0), "P02": ("T", 0), "P03": ("GT", 0),
    "W08": ("", 0), "P15": ("", 0), "P17": ("", 0), "P16": ("", 0), "P13": ("", 0), "P11": ("GHTV", 0), "P12": ("GHTV", 0), "P10": ("GHT", 0), "P13V": ("", 0), "P17D": ("", 0), "P18": ("GGTTUE", 0), "P18D": ("GGTTUE", 0), "P18F": ("G", 0),
}
for k, v in PRED_SIG.items(): corr.OPSIG[k] = v

PROPS = {}

PROPS["C01"] = dict(
    vfiles=["Properties_C01.v"], level="proof",
    groups=BASE_GROUPS,
    corr_ops=["Compose", "Inverse", "Identity", "Act", "Transform", "Rotation", "Translation"],
    preds=[dict(op="P01", pairs=["T(X*Y)=T(X)T(Y)", "T(X^-1)T(X)=I", "T(X)T(X^-1)=I", "T(Identity)=I", "hom(act(X,p))=T(X)hom(p)",
                                 "assoc", "operator*=compose", "I*X=X", "X*I=X", "X^-1*X=I", "X*X^-1=I"],
                dtol=1e-10, dscale=lambda c: (1 + maxabs(c)) ** 2)],
    n=dict(quick=(20, 40), thorough=(300, 600)),
    assumptions=["model = hand-written Gallina mirror of the C++ (coq/SO2.v ... SGal3.v, Rn.v); tied to /repo by exact comparison over the rational scalar on this run's cases",
                 "theorems are over Coq's classical reals (exact arithmetic); IEEE rounding is only tested (double predicate sweep, tolerance 1e-10 * (1+max|coordinate|)^2)"],
)

PROPS["C07"] = dict(
    vfiles=["Properties_C07.v"], level="proof",
    groups=BASE_GROUPS + ["R2", "R9"],
    corr_ops=["Generator", "Hat", "Vee", "Bracket", "Inner", "InnerWeights", "WeightedNorm", "SqWeightedNorm", "SmallAdj"],
    preds=[dict(op="P07", pairs=["hat(t)=sum t_i*Generator(i)", "Vee(hat(t))=t", "hat(Bracket(a,b))=[hat a,hat b]", "bracket antisymmetric",
                                 "Jacobi identity", "inner(a,b)=trace(hat a * hat b^T)", "InnerWeights symmetric", "squaredWeightedNorm=inner(t,t)",
                                 "hat linear", "out-of-range Generator index raises invalid_argument", "InnerWeights positive definite"],
                dtol=1e-9, dscale=lambda c: (1 + maxabs(c)) ** 3)],
    n=dict(quick=(25, 40), thorough=(300, 600)),
    assumptions=["model = hand-written Gallina mirror of generator.h, bracket.h, vee.h, *Tangent_base.h (hat, smallAdj, GeneratorEvaluator, VeeEvaluatorImpl, InnerWeights); tied to /repo by exact comparison over the rational scalar on this run's cases",
                 "theorems are over Coq's classical reals (exact arithmetic, which is what the property's last sentence asks for); floating-point evaluation is only tested",
                 "Bundle tangents: three layouts run through the same correspondence and predicate (generators at the algebra offsets, out-of-range index, bracket, inner weights); theorems for Bundles are the block structure of C11"],
)

def sweep_tangent(g, gd, maxang=None, linmax=6, beyond=False):
    """tangent with rotation magnitude log-uniform in [1e-9, pi) and linear magnitude log-uniform in [1e-3, 10^linmax],
    chosen independently (the float sweeps of C02/C05/C06: accuracy must be uniform in both)"""
    t = []
    def logu(lo, hi):
        e = g.r.uniform(lo, hi); k = int(e // 1); m = int(10 ** (e - k) * 1000)
        return Fr(m, 1000) * Fr(10) ** k
    for kind, n in gd.tparts:
        if kind == "lin":
            mag = logu(-3, linmax) if g.r.random() < 0.85 else Fr(0)
            t += [mag * Fr(g.r.randint(-100, 100), 100) for _ in range(n)]
        else:
            th = logu(-9, 0.49) if maxang is None else logu(-9, maxang)
            th = min(th, Fr(314, 100))
            if beyond and g.r.random() < 0.3:       # close to pi, and beyond pi up to several turns (C02: "from 0 to several pi")
                th = Fr(g.r.choice([g.r.randint(3100, 3183), g.r.randint(3142, 9424), g.r.randint(9425, 31415)]), 1000)
            th = th * g.r.choice([1, -1])
            g.note("sweep_angle:1e%d" % int(__import__("math").floor(__import__("math").log10(abs(float(th))))))
            if kind == "ang1": t += [th]
            else: t += g.vec3_norm(th) if g.r.random() < 0.6 else g.vec3_any(th)
    return t

def gen_sweep(op, linmax=6, beyond=False):
    """predicate case in which every tangent argument comes from sweep_tangent (other arguments as usual)"""
    def f(g, gn):
        c = corr.gen_case(g, gn, op, force_valid=True)
        if g.r.random() < 0.6:
            gd = corr.group(gn); sig = corr.OPSIG[op][0]
            c["args"] = [sweep_tangent(g, gd, linmax=linmax, beyond=beyond) if k == "T" else a for k, a in zip(sig, c["args"])]
        return c
    return f

def elem_tparts(gd):
    """the tangent parts of a group split per element group: [[(kind, n), ...], ...] (one entry for an element group,
    one per element for a Bundle: each element has its own rotation angle)"""
    return [list(e.tparts) for e in gd.elems] if getattr(gd, "elems", None) else [list(gd.tparts)]

def tangent_stats(c):
    """(theta^2, max |linear component|) of the first tangent argument of a case; for a Bundle theta^2 is the largest of
    the elements' squared rotation magnitudes"""
    gd = corr.group(c["group"])
    sig = corr.OPSIG[c["op"]][0]
    for k, a in zip(sig, c["args"]):
        if k in "TU":
            i = 0; th2max = Fr(0); lin = Fr(0)
            for parts in elem_tparts(gd):
                th2 = Fr(0)
                for kind, n in parts:
                    part = a[i:i + n]; i += n
                    if kind == "lin": lin = max([lin] + [abs(x) for x in part])
                    else: th2 += sum(x * x for x in part)
                th2max = max(th2max, th2)
            return th2max, lin
    return None, None

def gen_below_pi(op, strata=("zero", "tiny", "below_thr", "at_thr", "above_thr", "small", "smallish", "generic")):
    """predicate case whose tangent arguments have rotation magnitude <= 3.0 < pi (inside the injectivity radius)"""
    def f(g, gn):
        c = corr.gen_case(g, gn, op, force_valid=True)
        gd = corr.group(gn); sig = corr.OPSIG[op][0]
        args = []
        for k, a in zip(sig, c["args"]):
            if k == "T":
                if g.r.random() < 0.5: a = sweep_tangent(g, gd, maxang=0.47)
                else:
                    a = []
                    for kind, n in gd.tparts:
                        if kind == "lin": a += g.vecmag(n)
                        else:
                            th = g.angle(g.r.choice(list(strata)))
                            a += [th] if kind == "ang1" else (g.vec3_norm(th) if g.r.random() < 0.8 else g.vec3_any(th * Fr(9, 10)))
            args.append(a)
        c["args"] = args
        return c
    return f

def compose_py(gd, X, d):
    """X * D on coefficient lists for the rotation parts only (used to build a second element at a controlled relative rotation)"""
    out = []; i = 0
    for kind, n in gd.eparts:
        a, b = X[i:i + n], d[i:i + n]; i += n
        if kind == "lin": out += [x + y for x, y in zip(a, b)]
        elif kind == "rot2": out += corr.cmul(a, b)
        else: out += corr.qmul(a, b)
    return out

def gen_smooth(op, kmax=10, strata=("zero", "tiny", "below_thr", "at_thr", "above_thr", "small", "smallish", "generic")):
    """X, Y valid with neither X nor the relative rotation X^-1*Y exactly a half turn (log-type Jacobians exist there only as limits),
    tangents with rotation magnitude <= 3.0 (below pi), magnitudes up to 2^kmax; points arbitrary"""
    base = gen_below_pi(op, strata)
    def f(g, gn):
        c = base(g, gn); gd = corr.group(gn); sig = corr.OPSIG[op][0]
        X = corr.gen_elem(g, gd, True, nopi=True, kmax=kmax); args = []
        for k, a in zip(sig, c["args"]):
            if k == "G": a = X
            elif k == "H": a = compose_py(gd, X, corr.gen_elem(g, gd, True, nopi=True, kmax=kmax))
            elif k == "T":
                if max([abs(x) for x in a] + [0]) > 2 ** kmax: a = sweep_tangent(g, gd, maxang=0.47, linmax=3)
            elif k == "V": a = g.vecmag(len(a), kmax)
            args.append(a)
        c["args"] = args; return c
    return f

def rot_angles(c):
    """approximate (float) rotation angles of the arguments of a case: dict(ang_t: first tangent, ang_X: first element,
    ang_rel: of X^-1*Y for the first two elements) — used only to locate listed known findings"""
    import math
    if c["group"].startswith("B"): return {}
    gd = corr.group(c["group"]); sig = corr.OPSIG[c["op"]][0]; out = {}
    def ang(E):
        i = 0
        for kind, n in gd.eparts:
            part = E[i:i + n]; i += n
            if kind == "rot2": return abs(math.atan2(float(part[1]), float(part[0])))
            if kind == "rot4":
                v = math.sqrt(sum(float(x) ** 2 for x in part[:3])); return 2 * math.atan2(v, abs(float(part[3])))
        return 0.0
    def rel(A, B):
        i = 0
        for kind, n in gd.eparts:
            a, b = A[i:i + n], B[i:i + n]; i += n
            if kind == "rot2": return ang_of2(corr.cmul([a[0], -a[1]], b))
            if kind == "rot4": return ang_of4(corr.qmul([-a[0], -a[1], -a[2], a[3]], b))
        return 0.0
    def ang_of2(p): return abs(math.atan2(float(p[1]), float(p[0])))
    def ang_of4(p):
        v = math.sqrt(sum(float(x) ** 2 for x in p[:3])); return 2 * math.atan2(v, abs(float(p[3])))
    els = [a for k, a in zip(sig, c["args"]) if k in "GHN"]
    if els: out["ang_X"] = ang(els[0])
    if len(els) > 1: out["ang_rel"] = rel(els[0], els[1])
    th2, lin = tangent_stats(c)
    if th2 is not None: out["ang_t"] = math.sqrt(float(th2))
    return out

def neg_rot(gd, X):
    """the other coefficient vector of the same transformation: quaternion part negated (None when the group has no quaternion)"""
    out = []; i = 0; has = False
    for kind, n in gd.eparts:
        part = X[i:i + n]; i += n
        if kind == "rot4": out += [-x for x in part]; has = True
        else: out += part
    return out if has else None

def gen_p03(g, gn):
    c = gen_below_pi("P03")(g, gn); gd = corr.group(gn)
    # elements reachable only through composition: both hemispheres, angles near 0 / pi / 2pi
    c["args"][0] = corr.gen_elem(g, gd, True, nopi=True)   # (a half turn exactly has two principal logarithms: outside the claim)
    xn = neg_rot(gd, c["args"][0])
    if xn is not None: c["args"] = c["args"][:2] + [xn]
    return c

def p03_post(c, outs, sc):
    """rotation angle of log(X) is at most pi (for a Bundle: of every element's log)"""
    import math
    gd = corr.group(c["group"]); l = outs[6]; i = 0; worst = 0.0
    for parts in elem_tparts(gd):
        th2 = 0
        for kind, n in parts:
            part = l[i:i + n]; i += n
            if kind != "lin": th2 += sum(float(x) ** 2 for x in part)
        worst = max(worst, math.sqrt(th2))
    lim = math.pi * (1 + 1e-9) if sc != "q" else math.pi * (1 + 1e-6)
    return [] if worst <= lim else [(8, "rotation angle of log(X) = %.17g > pi" % worst)]

def gen_moderate_tangent(op):
    """tangent whose components are all moderate (|.| <= 3): power series in ad_t converge quickly"""
    def f(g, gn):
        gd = corr.group(gn)
        t = []
        for kind, n in gd.tparts:
            if kind == "lin": t += [Fr(g.r.randint(-300, 300), 100) * g.r.choice([1, 1, Fr(1, 1000), 0]) for _ in range(n)]
            elif kind == "ang1": t += [g.angle(g.r.choice(["zero", "tiny", "below_thr", "at_thr", "above_thr", "small", "smallish", "generic", "near_pi"]))]
            else:
                th = g.angle(g.r.choice(["zero", "tiny", "below_thr", "at_thr", "above_thr", "small", "smallish", "smallish", "generic", "generic", "near_pi"]))
                t += g.vec3_norm(th) if g.r.random() < 0.7 else g.vec3_any(th)
        return dict(group=gn, op=op, mask="-", iarg=0, flt=0, args=[t])
    return f

PROPS["C04"] = dict(
    vfiles=["Properties_C04.v"], level="proof",
    groups=BASE_GROUPS,
    corr_ops=["Rplus", "Lplus", "Plus", "Rminus", "Lminus", "Minus", "Between", "Compose", "AliasGT", "AliasGG", "AliasG", "AliasT", "AliasGV", "AliasId"],
    preds=[dict(op="P04", pairs=["X.rplus(t)=X*exp(t)", "X.lplus(t)=exp(t)*X", "X.rminus(Y)=log(Y^-1*X)", "X.lminus(Y)=log(X*Y^-1)", "X.between(Y)=X^-1*Y",
                                 "X+t", "t+X", "t.plus(X)", "t.lplus(X)", "t.rplus(X)", "X-Y", "X*Y", "X+=t", "X*=Y",
                                 "(X+t)-X=t", "X+(Y-X)=Y"],
                exact=list(range(14)), qtol=1e-7, dtol=1e-7, dscale=lambda c: (1 + maxabs(c)) ** 2, gen=gen_below_pi("P04"),
                pre=lambda c: (tangent_stats(c)[0] or 0) <= 9)],
    n=dict(quick=(20, 40), thorough=(300, 600)),
    assumptions=["model = hand-written Gallina mirror of LieGroupBase / TangentBase (lie_group_base.h, tangent_base.h) and of the alias table (Api.v: member aliases, operators, tangent-side forms, functions.h); tied to /repo by exact comparison over the rational scalar, every alias index executed on the implementation",
                 "the round-trip clauses (X+t)-X=t, X+(Y-X)=Y rest on C03 (log inverts exp below pi) and are additionally evaluated on the implementation"],
)

J05_PAIRS = ['J_inverse', 'J_log', 'J_exp', 'J_compose_a', 'J_compose_b', 'J_between_a', 'J_between_b', 'J_rplus_X', 'J_rplus_t', 'J_lplus_X', 'J_lplus_t', 'J_rminus_a', 'J_rminus_b', 'J_lminus_a', 'J_lminus_b', 'J_act_X', 'J_act_p', 'J_tplus_a', 'J_tplus_b', 'J_tminus_a', 'J_tminus_b']
PROPS["C05"] = dict(
    vfiles=["Properties_C05.v"], level="proof",
    groups=BASE_GROUPS,
    corr_ops=["Inverse", "Log", "Exp", "Compose", "Between", "Rplus", "Lplus", "Plus", "Rminus", "Lminus", "Minus", "Act", "TPlus", "TMinus"],
    preds=[dict(op="P05", pairs=J05_PAIRS, scalars=("h",), htol=1e-6, dscale=lambda c: (1 + maxabs(c)) ** 2,
                # forward differences with step 1e-30 must not straddle a branch threshold (the implemented functions jump by ~theta^3 there)
                gen=gen_smooth("P05", strata=("zero", "tiny", "below_thr", "above_thr", "small", "smallish", "generic"))),
           dict(op="J05", pairs=J05_PAIRS, scalars=(), xscalars=("d", "h"), xtol=1e-5, dscale=lambda c: (1 + maxabs(c)) ** 2, gen=gen_smooth("J05"))],
    n=dict(quick=(20, 25), thorough=(300, 400)),
    assumptions=["model = hand-written Gallina mirror of every Jacobian-returning operation (per-group closed forms and the chain-rule Jacobians of LieGroupBase); tied to /repo by exact comparison over the rational scalar for every subset of requested outputs",
                 "proved over the reals: the theorems listed in Properties_C05.v; every other Jacobian is tested, not proved: the analytic Jacobian against forward differences (step 1e-30) of the same operation, both evaluated by manif's own templates in 100-digit arithmetic, and the double-precision Jacobian against the 100-digit one (tolerance 1e-5 relative; the property says about 1e-6)"],
)

P09_PAIRS = ['compose value with {Ja}', 'compose value with {Jb}', 'compose value with {Ja,Jb}', 'compose Ja alone = Ja with Jb', 'compose Jb alone = Jb with Ja', 'between value with {Ja}', 'between value with {Jb}', 'between value with {Ja,Jb}', 'between Ja alone = Ja with Jb', 'between Jb alone = Jb with Ja', 'rplus value with {Ja}', 'rplus value with {Jb}', 'rplus value with {Ja,Jb}', 'rplus Ja alone = Ja with Jb', 'rplus Jb alone = Jb with Ja', 'lplus value with {Ja}', 'lplus value with {Jb}', 'lplus value with {Ja,Jb}', 'lplus Ja alone = Ja with Jb', 'lplus Jb alone = Jb with Ja', 'rminus value with {Ja}', 'rminus value with {Jb}', 'rminus value with {Ja,Jb}', 'rminus Ja alone = Ja with Jb', 'rminus Jb alone = Jb with Ja', 'lminus value with {Ja}', 'lminus value with {Jb}', 'lminus value with {Ja,Jb}', 'lminus Ja alone = Ja with Jb', 'lminus Jb alone = Jb with Ja', 'act value with {Ja}', 'act value with {Jb}', 'act value with {Ja,Jb}', 'act Ja alone = Ja with Jb', 'act Jb alone = Jb with Ja', 'inverse value with J', 'log value with J', 'exp value with J', 'compose: outputs bound to blocks of a larger matrix write exactly those blocks', 'compose value with block outputs', 'rminus: outputs bound to blocks write exactly those blocks', 'rminus value with block outputs', 'operand X unchanged', 'operand Y unchanged', 'operand t unchanged', 'operand p unchanged', 'compose repeated after other calls', 'rminus repeated after other calls', 'log Jacobian repeated after other calls', 'Z=Z*Z', 'Z=Z.inverse()', 'Z*=Z', 'Z=Z.compose(Y)', 'Z=X.compose(Z)', 'Map += t', 'Map = Map.between(Y)', 't=t+t'] + [x for nm in ['between', 'rplus', 'lplus', 'lminus', 'act', 'tangent plus', 'inverse', 'log', 'exp'] for x in ['%s: outputs bound to blocks of a larger matrix write exactly those blocks' % nm, '%s value with block outputs' % nm]]
P09 = dict(op="P09", pairs=P09_PAIRS, dtol=0.0, dscale=lambda c: 1.0)
PROPS["C09"] = dict(
    vfiles=["Properties_C09.v"], level="proof",
    groups=BASE_GROUPS,
    corr_ops=["Inverse", "Log", "Exp", "Compose", "Between", "Rplus", "Lplus", "Plus", "Rminus", "Lminus", "Minus", "Act", "TPlus", "TMinus"],
    preds=[P09],
    n=dict(quick=(24, 30), thorough=(300, 400)),
    assumptions=["the model is a pure function of its arguments by construction (Gallina); what is checked against the code is that every subset of requested outputs, outputs bound to blocks of a larger matrix, repeated calls after other library activity and aliased assignments all agree with it exactly (rational scalar) and with each other bit for bit (double)",
                 "function-local statics: their values are compared with a fresh evaluation (Identity vs setIdentity) in the correspondence; their thread-safety belongs to C14"],
)
PROPS["C05"]["preds"].append(P09)

PROPS["C02"] = dict(
    vfiles=["Properties_C02.v"], level="proof",
    groups=BASE_GROUPS,
    corr_ops=["Exp", "Hat", "Generator"],
    preds=[dict(op="P02", pairs=["exp(t) = matrix exponential of hat(t)", "hat(t)=sum t_i*Generator(i)", "exp(t) finite"], scalars=("h",),
                htol=1e-9, dscale=lambda c: (1 + maxabs(c)) ** 2, gen=gen_sweep("P02", linmax=6, beyond=True),
                # accuracy in double: exp(t) computed in double against the 100-digit series of hat(t)
                xscalars=("d", "h"), xref="rhs", xtol=1e-12)],
    n=dict(quick=(30, 60), thorough=(400, 1500)),
    assumptions=["model = hand-written Gallina mirror of every <Group>Tangent::exp (Taylor branches, thresholds, SGal3 fillE) and hat; tied to /repo by exact comparison over the rational scalar on both sides of every threshold",
                 "proved over the reals: the theorems listed in Properties_C02.v (exp is the entrywise limit of the exponential series of hat); for the groups not listed there the statement is tested on every run: exp(t).transform() against an independent scaling-and-squaring series of hat(t), both in 100-digit arithmetic (formula error) and in double (accuracy, tolerance 1e-12 relative to 1+|t|)"],
)

PROPS["C03"] = dict(
    vfiles=["Properties_C03.v"], level="proof",
    groups=BASE_GROUPS,
    corr_ops=["Log", "Exp"],
    preds=[dict(op="P03", pairs=["exp(log X)=X", "log(exp t)=t", "log X finite", "log(exp(log X))=log X", "log(-q)=log(q)", "T(-q)=T(q)"], scalars=("h", "d"),
                htol=1e-9, dtol=1e-9, dscale=lambda c: (1 + maxabs(c)) ** 2, gen=gen_p03, post=p03_post,
                pre=lambda c: (tangent_stats(c)[0] or 0) <= 9)],
    n=dict(quick=(30, 60), thorough=(400, 1500)),
    assumptions=["model = hand-written Gallina mirror of every <Group>::log (quaternion hemisphere handling, small-angle branches, V^-1 recovery) and exp; tied to /repo by exact comparison over the rational scalar",
                 "proved over the reals: the theorems listed in Properties_C03.v; the remaining groups are tested on every run in 100-digit arithmetic and in double (tolerance 1e-9)"],
)

PROPS["C06"] = dict(
    vfiles=["Properties_C06.v"], level="proof",
    groups=BASE_GROUPS,
    corr_ops=["Rjac", "Ljac", "Rjacinv", "Ljacinv", "Adj", "SmallAdj"],
    preds=[dict(op="P06", pairs=["hat(Adj(X)*s)=X*hat(s)*X^-1", "Adj(X*Y)=Adj(X)*Adj(Y)", "hat(smallAdj(t)*s)=[hat t,hat s]", "ljac(t)=rjac(-t)",
                                 "rjac*rjacinv=I", "rjacinv*rjac=I", "ljac*ljacinv=I", "ljacinv*ljac=I", "Adj(exp t)=ljac*rjacinv", "Adj(X^-1)*Adj(X)=I"],
                exact=[0, 1, 2, 3, 9], qtol=1e-6, dtol=1e-5, dscale=lambda c: (1 + maxabs(c)) ** 2, gen=gen_sweep("P06")),
           dict(op="P06S", pairs=["ljac(t)=sum ad^k/(k+1)!", "Adj(exp t)=exp(ad_t)", "rjac(t)=sum (-ad)^k/(k+1)!"], scalars=("d",),
                gen=gen_moderate_tangent("P06S"), dtol=1e-6, dscale=lambda c: (1 + maxabs(c)) ** 2)],
    n=dict(quick=(25, 60), thorough=(300, 1500)),
    assumptions=["model = hand-written Gallina mirror of rjac/ljac/rjacinv/ljacinv/adj/smallAdj of every group (incl. SE3::fillQ, SGal3 blocks, the numeric-inverse fallback as the exact inverse); tied to /repo by exact comparison over the rational scalar on this run's cases",
                 "proved over the reals: the algebraic identities (AdjLaws) for all groups and the inverse-Jacobian identities listed in Properties_C06.v; the series characterisation and the remaining inverse identities are tested (predicate sweep, tolerance 1e-5 relative: the property says about 1e-6) not proved",
                 "IEEE rounding is only tested"],
)


def gen_p18(op, kmax=40, emin=14):
    """X valid (any hemisphere), the same transformation with the quaternion negated, a small tangent d whose largest
    component is e*{2^-10, 1/4, 1/2, 2, 4, 2^10} (Y = X + d is built by the harness), tangents t, u at controlled distance, e"""
    def f(g, gn):
        gd = corr.group(gn)
        X = corr.gen_elem(g, gd, True, kmax=kmax)
        Xn = neg_rot(gd, X) or X
        e = g.r.choice([EPS_D, Fr(1, 10 ** g.r.randint(3, emin)), Fr(g.r.randint(1, 99), 10 ** g.r.randint(2, emin))]) if emin > 8 else Fr(g.r.randint(1, 99), 10 ** g.r.randint(3, emin))
        fac = g.r.choice([Fr(0), Fr(1, 1024), Fr(1, 4), Fr(1, 2), Fr(2), Fr(4), Fr(1024)])
        g.note("p18_factor:%s" % fs(fac))
        d = [e * fac * Fr(g.r.randint(-100, 100), 100) for _ in range(gd.dof)]
        if fac: d[g.r.randrange(gd.dof)] = e * fac * g.r.choice([1, -1])
        # keep the rotation part of d inside the injectivity radius
        i = 0
        for kind, n in gd.tparts:
            if kind != "lin": d[i:i + n] = [min(max(x, Fr(-1)), Fr(1)) for x in d[i:i + n]]
            i += n
        regime = g.r.choice(["zero", "tiny", "moderate", "large"])
        g.note("p18_tangent:" + regime)
        sc = {"zero": Fr(0), "tiny": e * Fr(g.r.randint(1, 99), 100), "moderate": Fr(g.r.randint(1, 300), 100), "large": Fr(g.r.randint(1, 99)) * 2 ** g.r.randint(5, kmax)}[regime]
        t = [sc * Fr(g.r.randint(-100, 100), 100) for _ in range(gd.dof)]
        pf = g.r.choice([Fr(0), Fr(1, 1024), Fr(1, 4), Fr(4), Fr(1024)])
        rel = g.r.random() < 0.5
        base = e * (max([abs(x) for x in t] + [0]) if rel else 1)
        u = [a + base * pf * Fr(g.r.randint(-100, 100), 100) for a in t]
        return dict(group=gn, op=op, mask="-", iarg=0, flt=0, args=[X, Xn, d, t, u, [e]])
    return f

def gen_p18f(g, gn):
    """valid element whose translation-like coordinates are large (1e3 .. 1e9): the float clause of C18"""
    gd = corr.group(gn); out = []
    for kind, n in gd.eparts:
        if kind == "lin":
            k = g.r.randint(3, 9); g.note("p18f_magnitude:1e%d" % k)
            out += [Fr(g.r.randint(-9999, 9999), 1000) * 10 ** k for _ in range(n)]
        elif kind == "rot2": out += g.unit2("generic" if g.r.random() < 0.7 else None)
        else: out += g.unit4("generic_pos" if g.r.random() < 0.7 else None)
    return dict(group=gn, op="P18F", mask="-", iarg=0, flt=0, args=[out])

P18_PAIRS = ["X.isApprox(X,e)", "X==X", "X.isApprox(-q,e)", "(-q).isApprox(X,e)", "isApprox symmetric", "isApprox(X+d,X,e) vs |d| well below / well above e",
             "t.isApprox(t,e)", "tangent isApprox symmetric", "tangent isApprox = absolute test near zero / relative test otherwise",
             "t.isApprox(Zero,e) is the absolute test", "Zero.isApprox(t,e) is the absolute test", "Y==Y for Y=X+d"]
PROPS["C18"] = dict(
    vfiles=["Properties_C18.v"], level="proof",
    groups=BASE_GROUPS,
    corr_ops=["IsApprox", "TIsApprox", "Rminus"],
    preds=[dict(op="P18", pairs=P18_PAIRS, scalars=("q",), gen=gen_p18("P18")),
           dict(op="P18D", pairs=P18_PAIRS, scalars=("d",), gen=gen_p18("P18D", kmax=8, emin=7), dtol=0.0, dscale=lambda c: 1.0),
           dict(op="P18F", pairs=["X==X (large coordinates)", "X.isApprox(X) (large coordinates)", "Z==Z for Z=X*X^-1*X (large coordinates)"], scalars=("d",), gen=gen_p18f, dtol=0.0, dscale=lambda c: 1.0)],
    n=dict(quick=(30, 40), thorough=(400, 600)),
    assumptions=["model = hand-written Gallina mirror of TangentBase::isApprox (with Eigen's isZero / isApprox spelled out) and LieGroupBase::isApprox = rminus(m).isApprox(Zero, eps); tied to /repo by exact comparison over the rational scalar (IsApprox, TIsApprox ops at controlled tangent distances)",
                 "theorems are over Coq's classical reals; the clause 'also for elements with large coordinates' is true over the reals (C18_refl_<G>) and is decided for IEEE double by the sweep P18F (coordinates 1e3..1e9)"],
)


def rot_slot(gd):
    i = 0
    for kind, n in gd.eparts:
        if kind in ("rot2", "rot4"): return [i, n]
        i += n
    return [0, 0]

def gen_w08(steps, small=True):
    def f(g, gn):
        gd = corr.group(gn)
        c = gen2.gen_history(g, gn)
        X, Y, us = c["args"][0], c["args"][1], c["args"][2]
        if not small:
            X = corr.gen_elem(g, gd, True, kmax=6); Y = corr.gen_elem(g, gd, True, kmax=6)
            ts = [gen2.small_tangent(g, gd) for _ in range(5)] + [sweep_tangent(g, gd, linmax=1) for _ in range(3)]
        else:
            X = gen2.small_elem(g, gd, True); Y = gen2.small_elem(g, gd, True); ts = c["args"][3:]
        us = [u for u in us if 0 <= u <= 1] or [Fr(1, 2)]
        return dict(group=gn, op="W08", mask="-", iarg=steps if isinstance(steps, int) else g.r.choice(steps), flt=0, args=[X, Y, us, rot_slot(gd)] + ts)
    return f

def c08_walks(pid, P, tier, seed, log):
    """the invariant as a monitor on the real double / float builds, assertion-enabled and NDEBUG: long random walks over the
    element-producing operations; after every step | |rotation part|^2 - 1 | <= eps (+ rounding), finite coefficients, no exception"""
    import math
    g = mkgen(pid, seed, 99)
    nwalk, steps = (3, 20000) if tier != "thorough" else (12, 500000)
    raw = []; cov = dict(walks=0, walk_steps=0, walk_builds=[])
    for sc, epsv, u in (("d", float(EPS_D), 2.0 ** -53), ("f", 100 * 2.0 ** -23, 2.0 ** -24)):
        for ndebug in (False, True):
            cases = [gen_w08(steps, small=False)(g, gn) for gn in P["groups"] for _ in range(nwalk)]
            res, be = corr.run_cases(cases, ndebug=ndebug, scalar=sc, model=False, timeout=3000)
            for n_, lg in be.items():
                raw.append(("build", dict(binary=n_), "harness %s does not build against the current tree: %s" % (n_, lg[-400:]), dict(binary=n_, log=lg[-3000:]), False))
            cov["walk_builds"].append("%s/%s" % (sc, "NDEBUG" if ndebug else "assertions"))
            for r in res:
                c = r["case"]
                if r["impl"] == "build_failed": continue
                outs = vcheck.parse_outs(r["impl"])
                cov["walks"] += 1; cov["walk_steps"] += c["iarg"]
                sig = dict(group=c["group"], pred="W08", scalar=sc, build="NDEBUG" if ndebug else "assert", _args=c["args"])
                rep = dict(kind="walk", scalar=sc, ndebug=ndebug, case=corr.case_json(c), result=r["impl"][:400])
                if outs is None:
                    raw.append(("pred", dict(sig, pair="exception"), "%s: a %d-step history over %s (%s) raised %s" % (c["group"], c["iarg"], sc, sig["build"], r["impl"][:80]), rep, True)); continue
                maxdev, exc, nonfin = float(outs[0][0]), int(outs[2][0]), int(outs[4][0])
                bound = epsv * (1 + 2.0 ** -8) + 64 * u
                if not (maxdev <= bound):
                    raw.append(("pred", dict(sig, pair="unit norm within eps"), "%s: after a %d-step history over %s (%s) the rotation part deviates from unit norm by %.3e > eps = %.3e" % (c["group"], c["iarg"], sc, sig["build"], maxdev, epsv), rep, True))
                if exc:
                    raw.append(("pred", dict(sig, pair="no exception"), "%s: a %d-step history over %s (%s) raised invalid_argument %d times" % (c["group"], c["iarg"], sc, sig["build"], exc), rep, True))
                if nonfin:
                    raw.append(("pred", dict(sig, pair="finite"), "%s: a %d-step history over %s (%s) produced non-finite coefficients %d times" % (c["group"], c["iarg"], sc, sig["build"], nonfin), rep, True))
    log("walks: %d walks, %d steps in total, builds %s, %d failures" % (cov["walks"], cov["walk_steps"], ",".join(cov["walk_builds"]), len(raw)))
    return raw, cov

PROPS["C08"] = dict(
    vfiles=["Properties_C08.v"], level="proof",
    groups=BASE_GROUPS,
    corr_ops=["History", "Cast", "Compose", "Inverse", "Between", "Exp", "Rplus", "Lplus", "Normalize"],
    preds=[dict(op="W08", pairs=["| |rotation part|^2 - 1 | <= eps after every step", "no exception", "finite coefficients"], scalars=("q",),
                exact=[1, 2], qtol=float(EPS_D), dscale=lambda c: 1.0, gen=gen_w08([1, 2, 3, 4, 5]))],
    extra=[c08_walks],
    n=dict(quick=(25, 25), thorough=(300, 300)),
    assumptions=["model = hand-written Gallina mirror of compose (with the conditional renormalisation by approxSqrtInv), inverse, exp (incl. SO3's small-angle branch), cast, interpolate_slerp and of the history machine (coq/Hist.v); tied to /repo by exact comparison of encoded histories over the rational scalar",
                 "theorems are over Coq's classical reals (exact arithmetic), for every 0 < eps <= 1/8; IEEE rounding is not in the theorems: it is monitored on the double and float builds, assertion-enabled and NDEBUG, by random walks (quick: 2e4 steps, thorough: 5e5 steps per walk) with the bound eps*(1+2^-8)+64u"],
)


P15_PAIRS = ["SLERP(A,B,0)=A", "SLERP(A,B,1)=B", "CUBIC(A,B,0)=A", "CUBIC(A,B,1)=B", "CNSMOOTH(A,B,0)=A", "CNSMOOTH(A,B,1)=B",
             "smooth m=1 (A,B,0)=A", "smooth m=1 (A,B,1)=B", "smooth m=2 (A,B,0)=A", "smooth m=2 (A,B,1)=B", "smooth m=4 (A,B,0)=A", "smooth m=4 (A,B,1)=B",
             "SLERP(A,B,t)=A*exp(t*log(A^-1*B))", "log(A^-1*m(t))=t*log(A^-1*B)", "SLERP(g*A,g*B,t)=g*SLERP(A,B,t)",
             "t outside [0,1] raises runtime_error (all methods)", "phi(0)=0, phi(1)=1, monotone on a 64-point grid (degrees 1..4)", "unsupported degrees raise logic_error"]
def gen_p15(g, gn):
    gd = corr.group(gn)
    A = corr.gen_elem(g, gd, True, nopi=True, kmax=8)
    # B at a relative rotation below pi (the half turn has two geodesics)
    B = compose_py(gd, A, corr.gen_elem(g, gd, True, nopi=True, kmax=8))
    gg = corr.gen_elem(g, gd, True, kmax=8)
    def tan():
        if g.r.random() < 0.25: return [Fr(0)] * gd.dof
        return sweep_tangent(g, gd, maxang=0.3, linmax=2) if g.r.random() < 0.5 else gen2.small_tangent(g, gd)
    t = g.r.choice([Fr(0), Fr(1), Fr(1, 2), Fr(1, 3), Fr(7, 8), Fr(1, 2 ** 30), 1 - Fr(1, 2 ** 30), Fr(g.r.randint(0, 100), 100)])
    g.note("p15_t:%s" % fs(t))
    return dict(group=gn, op="P15", mask="-", iarg=0, flt=0, args=[A, B, gg, tan(), tan(), [t]])

PROPS["C15"] = dict(
    vfiles=["Properties_C15.v"], level="proof",
    groups=BASE_GROUPS,
    corr_ops=["Interp", "Phi"],
    preds=[dict(op="P15", pairs=P15_PAIRS, exact=[12, 15, 16, 17], qtol=1e-6, dtol=1e-7, dscale=lambda c: (1 + maxabs(c)) ** 2, gen=gen_p15)],
    n=dict(quick=(40, 25), thorough=(500, 300)),
    assumptions=["model = hand-written Gallina mirror of algorithms/interpolation.h (smoothing_phi, interpolate_slerp / _cubic / _smooth, the dispatcher, the order of the argument checks); tied to /repo by exact comparison over the rational scalar for every method, t in {0, 1, interior, just outside [0,1]}, non-zero end-point velocities, degrees 0..6",
                 "theorems are over Coq's classical reals; end points / geodesic / equivariance are proved for any group with exp(log X) = X on valid elements and instantiated for SO2, SE2, R3 (where C03 is proved); for the other groups they are evaluated on the implementation on every run (exact scalar: tolerance 1e-6 because the oracle square roots are rounded; double: 1e-7 relative)"],
)


def gen_p17(g, gn, op="P17"):
    c = gen2.gen_decasteljau(g, gn, nmax=9, exact_small=(op == "P17"))
    gd = corr.group(gn)
    # consecutive control points at a relative rotation below pi (the geodesic between them is then unique)
    pts = c["args"][1:]
    if not gn.startswith("R") and pts:
        q = [corr.gen_elem(g, gd, True, nopi=True, kmax=6)]
        for _ in pts[1:]: q.append(compose_py(gd, q[-1], corr.gen_elem(g, gd, True, nopi=True, kmax=3)))
        pts = q
    d = dict(c); d["op"] = op; d["args"] = [c["args"][0]] + pts
    return d

def c17_exhaustive(pid, P, tier, seed, log):
    """every (N, degree, k, closed) in a box, on R2 (exact) and SE2 (exact): size of the result and the curve itself against the model,
    each call under the harness time limit (termination is otherwise unobservable)"""
    nmax = 9 if tier != "thorough" else 14
    g = mkgen(pid, seed, 17); cases = []
    for gn in ("R2",) + (("SE2",) if tier == "thorough" else ()):
        gd = corr.group(gn)
        for N in range(0, nmax + 1):
            for d in range(2, N + 2):
                for k in (0, 1, 2):
                    for closed in (0, 1):
                        if gn != "R2" and N * max(k, 1) * d > 60: continue
                        pts = [[Fr(g.r.randint(-99, 99), g.r.choice([1, 2, 3, 7])) for _ in range(gd.rep)] for _ in range(N)] if gn == "R2" else [gen2.small_elem(g, gd, True) for _ in range(N)]
                        cases.append(dict(group=gn, op="Decasteljau", mask="-", iarg=(d * 1000 + k) * 2 + closed, flt=0, args=[gen2.dc_ts(d, max(k, 1))] + pts))
    res, be = corr.run_cases(cases, timeout=600)
    summ, dis = corr.summarize(res)
    raw = []
    for d_ in dis[:5]:
        c = d_["case"]; code = c["iarg"]
        raw.append(("corr", dict(group=c["group"], op="Decasteljau", _args=c["args"]),
                    "decasteljau(N=%d, degree=%d, k=%d, closed=%d) on %s: implementation and model differ (impl %s / model %s)" % (len(c["args"]) - 1, code // 2 // 1000, code // 2 % 1000, code % 2, c["group"], d_["impl"][:80], d_["model"][:80]),
                    dict(kind="correspondence", names="dc_plan / dc_curve (coq/Algorithms.v) vs manif::decasteljau over ExQ", case=corr.case_json(c), impl=d_["impl"][:3000], model=d_["model"][:3000]), True))
    log("exhaustive (N <= %d, 2 <= d <= N+1, k in 0..2, open/closed): %d cases, %d disagreements" % (nmax, len(cases), len(dis)))
    return raw, dict(exhaustive_box="N<=%d, 2<=degree<=N+1, k in {0,1,2}, closed in {0,1}" % nmax, exhaustive_cases=len(cases), exhaustive_disagreements=len(dis))

P17_PAIRS = ["number of curve points = windows * points per window (or: invalid arguments raise)", "last curve point of each window = its last control point",
             "degree 2: every curve point is on the geodesic between consecutive trajectory points"]
PROPS["C17"] = dict(
    vfiles=["Properties_C17.v"], level="proof",
    groups=["R2", "R3", "SE2", "SO3", "SE3", "SO2"],
    corr_ops=["Decasteljau"],
    preds=[dict(op="P17", pairs=P17_PAIRS, scalars=("q",), exact=[0, 1, 2], gen=gen_p17),
           dict(op="P17D", pairs=P17_PAIRS, scalars=("d",), dtol=0.0, dscale=lambda c: 1.0, gen=lambda g, gn: gen_p17(g, gn, "P17D"))],
    extra=[c17_exhaustive],
    n=dict(quick=(30, 30), thorough=(300, 300)),
    assumptions=["model = hand-written Gallina mirror of algorithms/decasteljau.h with the C++ integer types explicit (size_t, unsigned int, wrapping) and every trajectory[i] a checked access; tied to /repo by exact comparison of the whole returned curve over the rational scalar (a wrong window changes the curve), exhaustively over a box of (N, degree, k, closed)",
                 "floor(double(a)/double(b)) is modelled as integer division (exact for sizes below 2^53); t_01 = double(t)/segment_k is passed to the model as the exact value of that double quotient",
                 "termination: the model is structural recursion over a finite plan; on the implementation every call runs under a time limit",
                 "the window-end and geodesic theorems are proved for groups with exp(log X) = X proved (SO2, SE2, Rn); for the others they are evaluated on the implementation (tolerance 1e-6)"],
)


P16_PAIRS = ["result is a valid element", "mean_i log(m^-1 X_i) = 0 (stationary)", "independent of the order of the points", "commutes with left translation", "commutes with right translation", "identical points return that point"]
def gen_p16(g, gn):
    gd = corr.group(gn)
    C = corr.gen_elem(g, gd, True, kmax=3); gg = corr.gen_elem(g, gd, True, kmax=3)
    n = g.r.choice([0, 1, 2, 3, 5, 8, 20]); g.note("p16_n:%d" % n)
    rad = g.r.choice([Fr(1, 100), Fr(1, 10), Fr(1, 4)]); g.note("p16_radius:%s" % fs(rad))
    ds = [[rad * Fr(g.r.randint(-100, 100), 100) for _ in range(gd.dof)] for _ in range(n)]
    kind = g.r.randint(0, 3); g.note("p16_kind:%d" % kind)
    return dict(group=gn, op="P16", mask="-", iarg=kind, flt=0, args=[rot_slot(gd), gg, C] + ds)
def p16_post(c, outs, sc):
    # right translation is only claimed for the bi-invariant mean and the two Frechet variants; the weighted average() only left
    return []
def p16_drop(c, bad):
    # for the weighted average() the property claims validity, identical points and left translation only
    return [(k, why) for k, why in bad if not (k in (1, 2, 4) and c["iarg"] == 1)]

PROPS["C16"] = dict(
    vfiles=["Properties_C16.v"], level="proof",
    groups=BASE_GROUPS,
    corr_ops=["Average"],
    preds=[dict(op="P16", pairs=P16_PAIRS, scalars=("d",), dtol=1e-6, dscale=lambda c: (1 + maxabs(c)) ** 2, gen=gen_p16, drop=p16_drop)],
    n=dict(quick=(12, 40), thorough=(150, 400)),
    assumptions=["model = hand-written Gallina mirror of algorithms/average.h (four routines as loops on the iteration budget, the stopping tests, the distinct use of the eps argument and Constants::eps); tied to /repo by exact comparison over the rational scalar for 0..3 points and 0..2 iterations (exact rationals grow with every iteration)",
                 "proved over the reals: the theorems of Properties_C16.v; convergence within the budget, order-independence, right-equivariance and the Frechet / weighted variants beyond empty and single inputs are evaluated on the implementation in double (clouds of 0..20 points within radius 0.01..0.25 of a centre, tolerance 1e-6)"],
)


def valid_ctor(g, gn):
    """a Ctor case whose data is valid (unit complex number / quaternion / axis): used by the accessor predicates"""
    for _ in range(200):
        c = gen2.gen_ctor(g, gn)
        if c["iarg"] >= 10: continue
        ok = True
        for a in c["args"]:
            if len(a) == 4 and gn != "SE2" and abs(sum(x * x for x in a) - 1) != 0 and c["iarg"] == 0 and not gn.startswith("R"): ok = False
        if gn == "SO2" and c["iarg"] == 0 and sum(x * x for x in c["args"][0]) != 1: ok = False
        if gn == "SE2" and c["iarg"] == 1 and sum(x * x for x in c["args"][0][2:]) != 1: ok = False
        if not gn.startswith("R") and gn not in ("SO2", "SE2") and c["iarg"] == 1:
            ax = c["args"][1 if gn == "SO3" else 2]
            if sum(x * x for x in ax) != 1: ok = False
        if ok:
            d = dict(c); d["op"] = "P13"; d["mask"] = "-"; return d
    raise RuntimeError("no valid constructor case")

P13V_PAIRS = ["rejected exactly when | |rotation data| - 1 | >= eps (never with NDEBUG)",
              "G(Eigen::Map<G>) validates like the coefficient constructor", "G(Eigen::Map<const G>) validates like the coefficient constructor",
              "normalize() makes the data acceptable"]
def gen_p13v(epsq):
    def f(g, gn):
        gd = corr.group(gn)
        X = corr.gen_elem(g, gd, True)
        fac = g.r.choice([Fr(0), Fr(1, 2), Fr(-1, 2), Fr(9, 10), Fr(-9, 10), Fr(11, 10), Fr(-11, 10), Fr(2), Fr(-2), Fr(1000), Fr(-1000)])
        g.note("p13v_factor:%s" % fs(fac))
        return dict(group=gn, op="P13V", mask="-", iarg=0, flt=0, args=[X, [1 + fac * epsq], rot_slot(gd), [epsq]])
    return f

def c13_asserts(pid, P, tier, seed, log):
    """assertion-enabled builds (the baseline suite is built with NDEBUG): the constructors / setters against the model with the
    assertion flag on (exact), and the acceptance threshold on the double and float builds"""
    g = mkgen(pid, seed, 13); n = 12 if tier != "thorough" else 120
    raw = []; cov = {}
    cases = [gen2.gen_ctor(g, gn, asserts=True) for gn in P["groups"] for _ in range(n)]
    res, be = corr.run_cases(cases, ndebug=False)
    summ, dis = corr.summarize(res)
    for n_, lg in be.items():
        raw.append(("build", dict(binary=n_), "harness %s does not build against the current tree: %s" % (n_, lg[-400:]), dict(binary=n_, log=lg[-3000:]), False))
    for d_ in dis[:5]:
        c = d_["case"]
        raw.append(("corr", dict(group=c["group"], op="Ctor", build="assert", _args=c["args"]),
                    "%s constructor %d in the assertion-enabled build: implementation %s / model %s" % (c["group"], c["iarg"], d_["impl"][:80], d_["model"][:80]),
                    dict(kind="correspondence", names="Ctor.v (checked) vs the class constructors, assertion-enabled build", case=corr.case_json(c), ndebug=False, impl=d_["impl"][:2000], model=d_["model"][:2000]), True))
    cov["assert_build_ctor_cases"] = len(cases); cov["assert_build_ctor_disagreements"] = len(dis); cov["assert_build_exceptions"] = summ["exceptions"]
    nv = 0
    for sc, epsq in (("q", EPS_D), ("d", EPS_D), ("f", Fr(100, 2 ** 23))):
        for ndebug in (False, True):
            vc = [gen_p13v(epsq)(g, gn) for gn in P["groups"] for _ in range(n)]
            r2, be2 = corr.run_cases(vc, ndebug=ndebug, scalar=sc, model=False)
            for r in r2:
                if r["impl"] == "build_failed": continue
                outs = vcheck.parse_outs(r["impl"]); c = r["case"]; nv += 1
                bad = [("exception", r["impl"][:80])] if outs is None else [(nm, "%s vs %s" % (fs(outs[2 * k][0]), fs(outs[2 * k + 1][0]))) for k, nm in enumerate(P13V_PAIRS) if outs[2 * k] != outs[2 * k + 1]]
                for nm, why in bad:
                    raw.append(("pred", dict(group=c["group"], pred="P13V", scalar=sc, pair=nm, build="NDEBUG" if ndebug else "assert", _args=c["args"]),
                                "%s: %s fails over %s (%s build): %s" % (c["group"], nm, sc, "NDEBUG" if ndebug else "assertion-enabled", why),
                                dict(kind="predicate", scalar=sc, ndebug=ndebug, pair=nm, case=corr.case_json(c), result=r["impl"][:300]), True))
    cov["validation_evaluations"] = nv
    log("assertion-enabled builds: %d constructor cases (%d disagreements), %d validation evaluations, %d failures" % (len(cases), len(dis), nv, len(raw)))
    return raw, cov

PROPS["C13"] = dict(
    vfiles=["Properties_C13.v"], level="proof",
    groups=BASE_GROUPS,
    corr_ops=["Ctor", "Cast", "Normalize", "Rotation", "Translation", "Transform"],
    preds=[dict(op="P13", pairs=["rotation() orthonormal", "det rotation() = 1", "rotation() is the supplied rotation", "translation() / velocity / time are the supplied ones",
                                 "transform() carries rotation()", "raw coefficients fed back", "quat()/angle() + translation fed back reproduce the element", "cast<float>() and back"],
                exact=[5], qtol=1e-5, dtol=1e-6, dscale=lambda c: (1 + maxabs(c)) ** 2, gen=valid_ctor)],
    extra=[c13_asserts],
    n=dict(quick=(25, 30), thorough=(300, 400)),
    assumptions=["model = hand-written Gallina mirror of the constructors / setters of SO2.h .. SGal3.h, Rn.h (Ctor.v: delegation to the coefficient-vector constructor and its MANIF_ASSERT, AngleAxis -> Quaternion, AngleAxis products, Quaternion(Matrix3), Rotation2D(M).angle()), of the accessors and of cast; tied to /repo by exact comparison over the rational scalar in BOTH build modes (NDEBUG and assertion-enabled)",
                 "theorems are over Coq's classical reals; Quaternion(Matrix3) and the SE_2(3) / SGal(3) accessors are covered by the correspondence and by the accessor predicate P13 on the implementation (exact with tolerance 1e-5 for oracle square roots, double 1e-6), the precision of cast<float> by P13 only"],
)


BUNDLES_QUICK = ["B[R1,SO3,SE2]", "B[SE23,R2,SO3]", "B[SO2,SE3,R5,SGal3]"]
BUNDLES_ALL = BUNDLES_QUICK + ["B[SGal3,SO2,SO2,SE23]", "B[SE2]", "B[SE3,SE3]", "B[SO3,SGal3,R3,SE2,SE3]"]
P11_PAIRS = ["inverse", "J_inverse block diagonal", "log", "J_log block diagonal", "compose", "J_compose_a block diagonal", "J_compose_b block diagonal",
             "act", "J_act_m blocks", "J_act_v blocks", "adj block diagonal", "transform block diagonal", "exp", "J_exp block diagonal", "hat block diagonal",
             "rjac", "ljac", "rjacinv", "ljacinv", "smallAdj", "between", "rplus", "rminus", "element<i>() aliases the i-th element's coefficients",
             "hat(t) = sum t_i Generator(i)", "Vee(hat(t)) = t"]
def c11_layouts(pid, P, tier, seed, log):
    """thorough tier: the remaining layouts (compile-time instantiations, one harness binary each)"""
    if tier != "thorough": return [], dict(layouts=BUNDLES_QUICK)
    Q = dict(P); Q["groups"] = [b for b in BUNDLES_ALL if b not in BUNDLES_QUICK]; Q["extra"] = []
    g = mkgen(pid, seed, 111)
    cases = gen_corr_cases(g, Q, 6); res, be = corr.run_cases(cases); summ, dis = corr.summarize(res)
    raw = [("build", dict(binary=n_), "harness %s does not build against the current tree: %s" % (n_, lg[-400:]), dict(binary=n_, log=lg[-3000:]), False) for n_, lg in be.items()]
    for d_ in dis[:5]:
        c = d_["case"]
        raw.append(("corr", dict(group=c["group"], op=c["op"], _args=c["args"]), "correspondence %s.%s: impl %s / model %s" % (c["group"], c["op"], d_["impl"][:80], d_["model"][:80]),
                    dict(kind="correspondence", case=corr.case_json(c), impl=d_["impl"][:3000], model=d_["model"][:3000]), True))
    pv, st = eval_preds(Q, gen_pred_cases(g, Q, 10), log)
    log("further layouts: %d cases, %d disagreements, %d predicate failures" % (len(cases), len(dis), len(pv)))
    return raw + pv, dict(layouts=BUNDLES_ALL, further_layout_cases=len(cases))

PROPS["C11"] = dict(
    vfiles=["Properties_C11.v"], level="proof",
    groups=BUNDLES_QUICK,
    corr_ops=["Inverse", "Log", "Compose", "Act", "Adj", "Between", "Rplus", "Lplus", "Rminus", "Lminus", "Transform", "Identity", "Exp", "Hat", "Rjac", "Ljac", "Rjacinv", "Ljacinv",
              "SmallAdj", "Generator", "Vee", "Bracket", "Inner", "InnerWeights", "TPlus", "TMinus", "IsApprox", "Cast"],
    preds=[dict(op="P11", pairs=P11_PAIRS, qtol=0.0, dtol=0.0, dscale=lambda c: 1.0)],
    extra=[c11_layouts],
    n=dict(quick=(5, 12), thorough=(60, 120)),
    assumptions=["model = scalar-generic Gallina mirror of impl/bundle/* for an ARBITRARY list of groups (coq/Bundle.v: compute_indices as the template recursion, element views, pack-expansion loops writing blocks at the table offsets); tied to /repo by exact comparison over the rational scalar of every Bundle operation on layouts chosen so that Dim, DoF, RepSize, transform size and algebra size differ at every position",
                 "the layouts are compile-time instantiations: a fixed set (quick 3, thorough 7); the theorems are for every layout",
                 "predicate P11 compares every Bundle operation with the element operations applied to standalone copies and placed at offsets recomputed in the harness, outputs pre-filled with sentinels (exact zeros must be written), exactly over the rational scalar and bit-for-bit in double"],
)


P12_PAIRS = ["d inverse", "d log", "d exp", "d compose wrt X", "d compose wrt Y", "d between wrt X", "d between wrt Y", "d rplus wrt X", "d rplus wrt t", "d lplus wrt X", "d lplus wrt t",
             "d rminus wrt Y", "d rminus wrt X", "d lminus wrt Y", "d lminus wrt X", "d act wrt X", "d act wrt p",
             "primal compose", "primal log", "primal exp", "primal rminus", "primal rplus", "primal rjac", "primal adj(inverse)",
             "LocalParameterization functor = X (+) d", "Manifold::Plus = X (+) d", "Manifold::Minus = Y (-) X", "Constraint functor residual", "Objective functor residual"]
C12_OPS = ["Inverse", "Log", "Compose", "Act", "Adj", "Rplus", "Lplus", "Rminus", "Lminus", "Between", "Transform", "Exp", "Hat", "Rjac", "Ljac", "Rjacinv", "Ljacinv", "SmallAdj", "TPlus", "Bracket", "Inner"]
def coarsen(g, gn, c):
    """replace the rotation parts of the arguments of a predicate case by generic ones (angles O(0.1..3), never in a small-angle or
    cancellation band): elements, relative rotation and tangent rotation"""
    import math
    gd0 = corr.group(gn); sig = corr.OPSIG[c["op"]][0]
    def coarse(E):
        out = []; i = 0
        for kind, n in gd0.eparts:
            part = E[i:i + n]; i += n
            out += part if kind == "lin" else (g.unit2(g.r.choice(["id", "quarter", "generic", "neg_generic"])) if kind == "rot2" else g.unit4(g.r.choice(["id", "generic_pos", "generic_neg", "axis"])))
        return out
    args = list(c["args"]); X = None
    for i, (k, a) in enumerate(zip(sig, args)):
        if k == "G": X = coarse(a); args[i] = X
        elif k == "H": args[i] = compose_py(gd0, X, coarse(a))
        elif k == "T":
            out = []; j = 0
            for kind, n in gd0.tparts:
                part = a[j:j + n]; j += n
                if kind != "lin":
                    th2 = float(sum(x * x for x in part))
                    if 0 < th2 and float(EPS_D) / 4 <= th2 < 1e-3:
                        th = g.angle("generic"); part = [th] if kind == "ang1" else g.vec3_norm(th)
                out += part
            args[i] = out
    d = dict(c); d["args"] = args; return d

def gen_p12(g, gn, exact=False):
    # over the exact rationals the oracle's transcendental values are rounded to ~2^-44: in the cancellation band just above the
    # small-angle switch-over that rounding is amplified, so the exact run keeps to the Taylor branches and to generic angles
    c = gen_smooth("P12", kmax=4, strata=("zero", "tiny", "below_thr", "generic") if exact else ("zero", "tiny", "below_thr", "above_thr", "small", "generic"))(g, gn)
    if exact: c = coarsen(g, gn, c)
    # elements are constants (zero dual parts); the dual parts of the tangent and of the point are the direction of differentiation
    gd = corr.group(gn)
    d = dict(c); d["flt"] = 2
    d["args"] = [list(c["args"][0]) + [Fr(0)] * gd.rep, list(c["args"][1]) + [Fr(0)] * gd.rep,
                 list(c["args"][2]) + [Fr(g.r.randint(-9, 9), g.r.choice([1, 2, 4])) for _ in range(gd.dof)],
                 list(c["args"][3]) + [Fr(g.r.randint(-9, 9), g.r.choice([1, 2, 4])) for _ in range(len(c["args"][3]))]]
    return d

def c12_dual(pid, P, tier, seed, log):
    """the model's dual-number instance against manif over a dual-number scalar, exactly (primal and dual parts), on every
    operation; and predicate P12 over dual rationals (tolerance for the oracle's rounded square roots / angles) and dual doubles"""
    g = mkgen(pid, seed, 12); n = 4 if tier != "thorough" else 40
    cases = []
    for gn in P["groups"]:
        for op in C12_OPS:
            if not corr.op_applicable(op, gn): continue
            for k in range(n):
                c = corr.gen_case(g, gn, op)
                cases.append(corr.dualize(g, c, zero=(k % 4 == 3)))
    res, be = corr.run_cases(cases, scalar="D")
    summ, dis = corr.summarize(res)
    raw = [("build", dict(binary=n_), "harness %s does not build against the current tree: %s" % (n_, lg[-400:]), dict(binary=n_, log=lg[-3000:]), False) for n_, lg in be.items()]
    seen = set()
    for d_ in dis:
        c = d_["case"]; k = (c["group"], c["op"])
        if k in seen: continue
        seen.add(k)
        raw.append(("corr", dict(group=c["group"], op=c["op"], scalar="D", _args=c["args"]),
                    "%s.%s over dual numbers: implementation and the model's dual instance differ (impl %s / model %s)" % (c["group"], c["op"], d_["impl"][:80], d_["model"][:80]),
                    dict(kind="correspondence", names="run_op at DS (QS orc) vs manif over vq::Dual<ExQ>", scalar="D", case=corr.case_json(c), impl=d_["impl"][:3000], model=d_["model"][:3000]), True))
    # P12
    npred = 6 if tier != "thorough" else 60
    nev = 0
    for sc, tol in (("D", 1e-6), ("E", 1e-6)):
        pcs = [gen_p12(g, gn, exact=(sc == "D")) for gn in P["groups"] for _ in range(npred)]
        r2, be2 = corr.run_cases(pcs, scalar=sc, model=False)
        for n_, lg in be2.items():
            raw.append(("build", dict(binary=n_), "harness %s does not build against the current tree: %s" % (n_, lg[-400:]), dict(binary=n_, log=lg[-3000:]), False))
        for r in r2:
            if r["impl"] in ("build_failed", "oracle_conflict"): continue
            c = r["case"]; outs = vcheck.parse_outs(r["impl"]); nev += 1
            if outs is None:
                if "div0" in r["impl"]: continue        # a square root differentiated at zero (e.g. the objective residual at the target): no derivative exists there
                raw.append(("pred", dict(group=c["group"], pred="P12", scalar=sc, pair="exception", _args=c["args"]), "%s P12 over %s raised %s" % (c["group"], sc, r["impl"][:80]),
                            dict(kind="predicate", scalar=sc, case=corr.case_json(c), result=r["impl"][:300]), True)); continue
            # the harness prints (primal vector, dual vector) per output: the compared quantities are the primal vectors (outs[4k], outs[4k+2])
            prim = outs[0::2]
            s0 = float((1 + maxabs(c)) ** 2)
            for k in range(len(prim) // 2):
                a, b = prim[2 * k], prim[2 * k + 1]
                # primal parts (pairs 17..23): the base-scalar result up to rounding (Eigen picks vectorised kernels for double only)
                bad = vcheck.pair_failures([a, b], False, tol=(1e-12 if 17 <= k <= 23 else tol), scale_fn=lambda k_, x, y, s: max(s, s0))
                for _, why in bad:
                    nm = P12_PAIRS[k] if k < len(P12_PAIRS) else "pair%d" % k
                    raw.append(("pred", dict(group=c["group"], pred="P12", scalar=sc, pair=nm, _args=c["args"], **rot_angles(dict(c, op="P05", args=[x[:len(x) // 2] for x in c["args"]]))),
                                "%s: %s fails over %s: %s" % (c["group"], nm, {"D": "dual rationals", "E": "dual doubles"}[sc], why),
                                dict(kind="predicate", scalar=sc, pair=nm, case=corr.case_json(c), lhs=[fs(x) for x in a][:60], rhs=[fs(x) for x in b][:60], why=why), True))
    log("dual numbers: %d exact cases (%d disagreements), %d predicate evaluations, %d failures" % (len(cases), len(dis), nev, len(raw)))
    return raw, dict(dual_exact_cases=len(cases), dual_exact_disagreements=len(dis), dual_predicate_evaluations=nev)

PROPS["C12"] = dict(
    vfiles=["Properties_C12.v"], level="proof",
    groups=BASE_GROUPS,
    corr_ops=["Exp", "Log", "Compose"],
    preds=[dict(op="J05", pairs=J05_PAIRS, scalars=(), xscalars=("f", "d"), xtol=2e-3, dscale=lambda c: (1 + maxabs(c)) ** 2,
                gen=lambda g, gn: coarsen(g, gn, gen_smooth("J05", kmax=3, strata=("generic",))(g, gn)))],
    extra=[c12_dual],
    n=dict(quick=(8, 10), thorough=(100, 100)),
    assumptions=["model at the dual-number instance DS (QS orc) = the scalar-generic Gallina model with every scalar operation lifted (coq/Dual.v); tied to /repo by exact comparison, primal AND dual parts, with manif's own templates instantiated over a dual-number scalar on the exact rationals (harness/dual.h: the ceres::Jet pattern, specialising only Constants and is_ad as ceres/constants.h does; ceres and autodiff themselves are not installed)",
                 "the ceres functors are header-only templates over raw pointers: they are instantiated directly (LieGroup over double / rationals, T = the dual scalar)",
                 "single precision: the float instantiation's Jacobians against the double ones on generic inputs (tolerance 2e-3 relative)"],
)


def c10_sanitized(pid, P, tier, seed, log):
    """support run (not proof): the view operations and predicate P10 in double under AddressSanitizer + UBSan; a report aborts the
    harness, which shows as a missing result"""
    g = mkgen(pid, seed, 10); n = 3 if tier != "thorough" else 30
    cases = [gen2.gen_view(g, gn) for gn in P["groups"] for _ in range(3 * n)] + [corr.gen_case(g, gn, "P10", force_valid=True) for gn in P["groups"] for _ in range(n)]
    by = {}
    for c in cases: by.setdefault(corr.gset_of(c["group"]), []).append(c)
    specs = [dict(name="hsan%s" % s, source="main.cpp", defines=["-DVQ_GROUPSET=%s" % s, "-DVQ_SCALAR=1"],
                  flags=("-std=c++11", "-O1", "-g", "-fsanitize=address,undefined", "-fno-sanitize-recover=all", "-fno-omit-frame-pointer"), libs=("-lgmpxx", "-lgmp", "-lmpfr")) for s in by]
    bins = vlib.build_many(specs); raw = []; nrun = 0
    import subprocess
    for s, cs in by.items():
        path, lg = bins["hsan%s" % s]
        if path is None:
            raw.append(("build", dict(binary="hsan%s" % s), "sanitizer harness does not build: %s" % lg[-400:], dict(binary="hsan%s" % s, log=lg[-3000:]), False)); continue
        inp = "\n".join(corr.case_line(i, c) for i, c in enumerate(cs)) + "\n"
        p = subprocess.run([path], input=inp, stdout=subprocess.PIPE, stderr=subprocess.PIPE, text=True, timeout=1200)
        done = sum(1 for l in p.stdout.splitlines() if l.startswith("R ")); nrun += done
        if p.returncode != 0 or done != len(cs):
            c = cs[min(done, len(cs) - 1)]
            raw.append(("pred", dict(group=c["group"], pred="sanitizer", scalar="d", pair="no AddressSanitizer / UBSan report", _args=c["args"]),
                        "%s: the sanitizer build stopped after %d of %d cases: %s" % (c["group"], done, len(cs), p.stderr[-400:].replace("\n", " ")),
                        dict(kind="sanitizer", case=corr.case_json(c), stderr=p.stderr[-3000:]), True))
    log("sanitizer build (ASan+UBSan, double): %d cases run, %d reports" % (nrun, len(raw)))
    return raw, dict(sanitizer_cases=nrun)

P10_PAIRS = ["Map inverse", "Map<const> inverse", "Map log", "Map<const> log", "Map compose", "Map<const> compose", "Y.compose(Map<const>)", "Map<const> rplus", "Map<const> rminus", "Map<const> adj",
             "Map<const> transform", "Map<const> * Y", "Map<const> compose J_a", "Map<const> compose J_b", "reads leave the buffer untouched", "Map = owning", "Map.setIdentity()", "Map += t", "Map *= Y",
             "Map = Map.inverse()", "Map = Map (copy)", "Map = std::move(Map)", "Map = Map<const>", "Map = std::move(owning)", "Map.coeffs()(k) = v", "owning = Map<const>", "owning(Map<const>)",
             "Map.normalize()", "Map.setRandom() writes only the view", "Map<const T> exp", "Map<const T> hat", "Map<const T> rjac", "X.rplus(Map<const T>)", "tangent reads leave the buffer untouched",
             "Map<T> += t", "Map<T>.setZero()", "Map<T> = t"]
PROPS["C10"] = dict(
    vfiles=["Properties_C10.v"], level="proof",
    groups=BASE_GROUPS,
    corr_ops=["View"],
    preds=[dict(op="P10", pairs=P10_PAIRS, dtol=0.0, dscale=lambda c: 1.0)],
    extra=[c10_sanitized],
    n=dict(quick=(40, 12), thorough=(400, 120)),
    assumptions=["model = a buffer as a list of scalars, a view as an offset (coq/Views.v): 29 operation ids through Eigen::Map<G>, Eigen::Map<const G>, Eigen::Map<Tangent>; tied to /repo by executing the same ids on user buffers with guard zones of distinct sentinel values (unaligned offsets) and comparing the results AND the whole buffer afterwards exactly over the rational scalar",
                 "predicate P10: owning object / Map / Map<const> results bit for bit (exact and double), whole buffers including guards after every kind of write, setRandom's frame",
                 "what the model cannot exhibit: C++ object lifetime, alignment, and reads outside the view that do not influence a value; those are covered only by the AddressSanitizer + UBSan build of the same driver (support, not proof)"],
)


def c14_statics(pid, P, tier, seed, log):
    """(a) regenerate the table of statics from clang's AST of /repo/include/manif and re-check the Coq obligation gen_ok on it;
    (b) support runs: thread stress harness, plain and under ThreadSanitizer, fresh process per launch"""
    import statics_scan, subprocess, tempfile
    raw = []; cov = {}
    os.makedirs(vlib.BUILD, exist_ok=True)
    wd = tempfile.mkdtemp(prefix="statics_", dir=vlib.BUILD)
    try:
        rows = statics_scan.scan(wd)
    except Exception as e:
        raw.append(("proof", dict(file="StaticsGen.v"), "the statics scan failed: %s" % str(e)[:300], dict(kind="proof", theorem="gen_ok (regenerated table)", detail=str(e)[:2000]), False))
        rows = None
    if rows is not None:
        gen = os.path.join(wd, "StaticsGen.v"); open(gen, "w").write(statics_scan.coq_table(rows))
        rc, out = vlib.sh(["coqc", "-Q", vlib.COQ, "Manif", gen], timeout=600, cwd=wd)
        bad = [r for r in rows if not (r["const"] or r["constexpr"]) or r["kind"] in ("mutable_field", "const_cast")]
        cov.update(statics_declarations=len(rows), statics_local=sum(1 for r in rows if r["kind"] == "local_static"), statics_not_const=len(bad), statics_obligation="gen_ok: %s" % ("Qed" if rc == 0 else "FAILED"))
        if rc != 0 or bad:
            for r in (bad or [dict(kind="?", name="?", file="?", line=0, type=out[-300:])])[:5]:
                raw.append(("pred", dict(group="statics", pred="gen_ok", pair="%s:%s" % (r["file"], r["name"]), site=r["file"], scalar="-"),
                            "shared mutable state reachable from the const API: %s `%s` (%s) at %s:%s is not const" % (r["kind"], r["name"], r.get("type", ""), r["file"], r["line"]),
                            dict(kind="statics", obligation="gen_ok (all_const_after_init statics = true)", declaration=r, coqc=out[-1500:]), True))
    shutil_rm(wd)
    # (b) stress runs
    nthreads = 8; launches = (10, 4) if tier != "thorough" else (200, 40)
    specs = [dict(name="threads_plain", source="threads.cpp", defines=[], flags=("-std=c++11", "-O2", "-pthread"), libs=()),
             dict(name="threads_tsan", source="threads.cpp", defines=[], flags=("-std=c++11", "-O1", "-g", "-fsanitize=thread"), libs=(), compiler="clang++")]
    bins = vlib.build_many(specs); nl = 0
    for (name, nlaunch) in (("threads_plain", launches[0]), ("threads_tsan", launches[1])):
        path, lg = bins[name]
        if path is None:
            raw.append(("build", dict(binary=name), "thread harness %s does not build: %s" % (name, lg[-400:]), dict(binary=name, log=lg[-3000:]), False)); continue
        for k in range(nlaunch):
            p = subprocess.run([path, str(nthreads), "2"], stdout=subprocess.PIPE, stderr=subprocess.PIPE, text=True, timeout=600); nl += 1
            if p.returncode != 0:
                what = "ThreadSanitizer reported a data race" if p.returncode == 66 or "ThreadSanitizer" in p.stderr else "a thread observed a value different from the single-thread result"
                raw.append(("pred", dict(group="threads", pred=name, pair=what, scalar="d"), "%s (launch %d of %s, %d threads): %s" % (what, k, name, nthreads, (p.stdout[-200:] + p.stderr[-600:]).replace("\n", " ")),
                            dict(kind="threads", binary=name, launch=k, threads=nthreads, stdout=p.stdout[-2000:], stderr=p.stderr[-4000:]), True))
                break
    cov.update(thread_launches=nl, threads_per_launch=nthreads)
    log("statics: %s declarations (%s function-local), obligation %s; thread runs: %d launches, %d failures" % (cov.get("statics_declarations"), cov.get("statics_local"), cov.get("statics_obligation"), nl, len(raw)))
    return raw, cov

def shutil_rm(d):
    import shutil
    shutil.rmtree(d, ignore_errors=True)

PROPS["C14"] = dict(
    vfiles=["Properties_C14.v"], level="proof",
    groups=BASE_GROUPS + ["B[R1,SO3,SE2]"],
    corr_ops=["Identity", "Generator", "InnerWeights", "AliasId"],
    preds=[],
    extra=[c14_statics],
    n=dict(quick=(6, 0), thorough=(40, 0)),
    assumptions=["C++11 [stmt.dcl]: the initialisation of a function-local static is performed exactly once and is atomic with respect to other threads reaching the declaration; this is the atomicity of `use` in the model (an assumption about the language, not about manif)",
                 "the table of statics is regenerated on every run from clang's AST of a translation unit including all of manif (tools/statics_scan.py: variables with static storage duration, mutable fields, const_casts) and the Coq obligation gen_ok is re-checked on it; the script is trusted to report what clang says",
                 "the values of the static helpers (Identity, Zero, Generator, InnerWeights) are tied to the model by the exact correspondence; data races at the memory-model level and anything inside Eigen are outside the model: covered by the ThreadSanitizer and plain stress runs (support, not proof)"],
)


def c19_matrix(pid, P, tier, seed, log):
    """the whole API matrix against the current tree (compile, link, run, forwarding), then the Coq obligation on the results"""
    import c19, api_matrix as am
    known = [k for k in vlib.load_known() if k.get("status") == "known" and k.get("property") == "C19"]
    separate = set((k["match"]["entry"], st) for k in known for st in k["match"].get("storage", []))
    res = c19.run_matrix(log=log, separate=separate)
    bad = {k: v for k, v in res.items() if not v[0]}
    raw = []
    by_entry = {}
    for (i, g, sc, st), (ok, why) in sorted(bad.items()):
        by_entry.setdefault((am.ENTRIES[i][0], st), []).append((g, sc, why))
    for (name, st), lst in by_entry.items():
        g0, sc0, why = lst[0]
        src, _ = am.unit(g0, sc0, st, only=[i for i, en in enumerate(am.ENTRIES) if en[0] == name][0])
        raw.append(("pred", dict(group="api", pred="cell", entry=name, storage=st, pair="%s [%s]" % (name, st), scalar="-", cells=len(lst)),
                    "`%s` with %s operands does not compile / link / forward for %d cells (%s): %s" % (name, am.STORAGE_TEXT[st], len(lst), ", ".join(sorted(set(g for g, _, _ in lst)))[:120], why[:300]),
                    dict(kind="api-cell", entry=name, storage=st, cells=[(g, sc) for g, sc, _ in lst], diagnostic=why, client=src), True))
    # a listed finding whose cells all pass now is reported too (the file must be updated, a check never edits it)
    excused = [(n, g, sc, st) for (n, g, sc, st) in am.cells() if (n, st) in separate]
    okc, out = c19.coq_obligation(res, log=log, excused=excused)
    cov = dict(api_cells=len(res), api_cells_failing=len(bad), api_entries=len(am.ENTRIES), api_groups=list(am.GROUPS), api_scalars=am.SCALARS, api_storages=am.STORAGES,
               exhaustive=True, coq_obligation="run_ok: %s" % ("Qed" if okc else "fails (some cell is not OK)"))
    log("API matrix: %d cells, %d failing; Coq obligation run_ok: %s" % (len(res), len(bad), "Qed" if okc else "fails"))
    if not okc and not bad:
        raw.append(("proof", dict(file="ApiMatrixGen.v"), "the regenerated obligation run_ok does not check: %s" % out[-300:], dict(kind="proof", theorem="run_ok (build/ApiMatrixGen.v)", detail=out[-2000:]), False))
    return raw, cov

PROPS["C19"] = dict(
    vfiles=["Properties_C19.v"], level="other",
    groups=BASE_GROUPS,
    corr_ops=["AliasGT", "AliasGG", "AliasG", "AliasT", "AliasGV", "AliasId"],
    preds=[],
    extra=[c19_matrix],
    n=dict(quick=(4, 0), thorough=(40, 0)),
    assumptions=["exhaustive enumeration, not proof: there is no formal C++ semantics among the installed tools, so compilation / overload resolution / template instantiation are decided by running the compiler on every cell of the matrix; Coq enumerates the cells (ApiMatrix.v: all_cells, complete by theorem) and checks the regenerated obligation that every cell has an OK result",
                 "matrix = 115 documented entries (README operation table and Jacobian section, Writing-generic-code.md, functions.h, the three algorithm headers) x 8 groups (SO2, SE2, SO3, SE3, SE_2_3, SGal3, Rn, a Bundle) x {double, float} x {owning, Eigen::Map, Eigen::Map<const>, three mixed-storage kinds for the binary entries}, minus the cells the applicability rule excludes (mutation of a const view, containers of views, rotation() of Rn ...)",
                 "each cell: the documented spelling compiled and linked (g++ -std=c++11) in a program that also evaluates the canonical member on owning copies and compares the two results (64 ulp)"],
)

# ------------------------------------------------------------------ generic engine
def mkgen(pid, seed, salt=0):
    return G((seed * 1000003 + zlib.crc32(pid.encode()) + salt) & 0x7fffffff)

def load_corpus(pid):
    p = os.path.join(vlib.VERIF, "corpus", pid + ".jsonl")
    out = []
    if os.path.exists(p):
        for l in open(p):
            l = l.strip()
            if l and not l.startswith("#"): out.append(corr.case_from_json(json.loads(l)))
    return out

def gen_corr_cases(g, P, n, groups=None, ops=None):
    cases = []
    for gn in (groups or P["groups"]):
        for op in (ops or P["corr_ops"]):
            if not corr.op_applicable(op, gn): continue
            nm = corr.OPSIG[op][1]
            for k in range(n):
                mask = None
                if nm and k < 2 ** nm: mask = format(k, "0%db" % nm)      # every output subset at least once
                cases.append(corr.gen_case(g, gn, op, mask=mask))
    return cases

def gen_pred_cases(g, P, n, groups=None, seed_args=None):
    cases = []
    for gn in (groups or P["groups"]):
        for pd in P.get("preds", []):
            if pd.get("groups") and gn not in pd["groups"]: continue
            for k in range(n):
                c = pd["gen"](g, gn) if pd.get("gen") else corr.gen_case(g, gn, pd["op"], force_valid=True)
                if seed_args is not None and k < n // 2:
                    c = transplant(c, seed_args, gn)
                elif seed_args is not None:
                    c = restratify(c, gn, g, k)          # the search sweeps the rotation strata of the element arguments evenly
                cases.append(c)
    return cases

SEARCH_U4 = ["smallish", "smallish", "smallish_neg", "tiny", "generic_pos", "generic_neg", "near_pi", "axis"]
SEARCH_U2 = ["smallish", "smallish", "tiny", "generic", "neg_generic", "near_pi"]
def restratify(c, gn, g, k):
    """search mode: the first element argument gets its rotation part from a fixed cycle of strata (log-dense small angles first)"""
    if gn.startswith("B"): return c
    gd = corr.group(gn); sig = corr.OPSIG[c["op"]][0]
    args = list(c["args"])
    for i, kd in enumerate(sig):
        if kd != "G": continue
        a = list(args[i]); j = 0
        for kind, m in gd.eparts:
            if kind == "rot4": a[j:j + m] = g.unit4(SEARCH_U4[k % len(SEARCH_U4)], nopi=True)
            elif kind == "rot2": a[j:j + m] = g.unit2(SEARCH_U2[k % len(SEARCH_U2)], nopi=True)
            j += m
        args[i] = a; break
    d = dict(c); d["args"] = args; return d

def transplant(c, seed_case, gn):
    """put the arguments of a disagreeing correspondence case into the slots of the same kind of a predicate case"""
    sig = corr.OPSIG[c["op"]][0]; ssig = corr.OPSIG[seed_case["op"]][0]
    kinds = {"G": "G", "H": "G", "N": "G", "T": "T", "U": "T", "V": "V"}
    pool = {}
    for k, a in zip(ssig, seed_case["args"]):
        if k in kinds: pool.setdefault(kinds[k], []).append(a)
    args = list(c["args"]); used = {}
    for i, k in enumerate(sig):
        kk = kinds.get(k)
        if kk and pool.get(kk):
            j = used.get(kk, 0)
            if j < len(pool[kk]): args[i] = pool[kk][j]; used[kk] = j + 1
    d = dict(c); d["args"] = args; return d

def eval_preds(P, pcases, log, scalars=None):
    """run predicate cases on the implementation; returns (violations, stats).  scalars: the instantiations to run (default: every
    scalar some predicate of the property asks for - q exact rationals, d double, f float, h 100-digit)"""
    viol = []; stats = dict(pred_evaluations=0, pred_pairs=0, pred_build_errors=[])
    byop = {pd["op"]: pd for pd in P.get("preds", [])}
    if scalars is None:
        scalars = [sc for sc in ("q", "d", "f", "h") if any(sc in pd.get("scalars", ("q", "d")) for pd in P.get("preds", []))]
    for sc in scalars:
        # a predicate may state a precondition on its inputs (e.g. rotation below pi): cases outside it are not evaluated
        sub = [c for c in pcases if sc in byop[c["op"]].get("scalars", ("q", "d")) and (not byop[c["op"]].get("pre") or byop[c["op"]]["pre"](c))]
        if not sub: continue
        res, be = vcheck.run_impl(sub, scalar=sc)
        for n_, lg in be.items():
            stats["pred_build_errors"].append(n_)
            viol.append(("build", dict(binary=n_), "harness %s does not build against the current tree: %s" % (n_, lg[-400:]), dict(binary=n_, log=lg[-3000:]), False))
        for r in res:
            c = r["case"]; pd = byop[c["op"]]
            if r["impl"] in ("build_failed", "oracle_conflict"): continue
            stats["pred_evaluations"] += 1
            outs = vcheck.parse_outs(r["impl"])
            if outs is None:
                viol.append(("pred", dict(group=c["group"], pred=c["op"], scalar=sc, pair="exception", _args=c["args"]),
                             "%s %s over %s raised %s on valid input" % (c["group"], c["op"], sc, r["impl"]),
                             dict(kind="predicate", scalar=sc, case=corr.case_json(c), result=r["impl"]), True))
                continue
            stats["pred_pairs"] += len(outs) // 2
            if sc == "q" and "exact" not in pd: bad = vcheck.pair_failures(outs, True)
            elif sc == "q":
                # pairs listed in pd["exact"] must agree exactly; the others (identities that are only approximate
                # over the rationals: oracle square roots, Taylor branches) within pd["qtol"]
                ex = set(pd["exact"]); bad = []
                s0 = pd["dscale"](c) if pd.get("dscale") else None
                for k in range(len(outs) // 2):
                    sel = [outs[2 * k], outs[2 * k + 1]]
                    b_ = vcheck.pair_failures(sel, True) if k in ex else \
                         vcheck.pair_failures(sel, False, tol=pd.get("qtol", 1e-9), scale_fn=(lambda k_, a, b, s, s0=s0: max(s, s0)) if s0 is not None else None)
                    bad += [(k, why) for _, why in b_]
            else:
                s0 = pd["dscale"](c) if pd.get("dscale") else None
                bad = vcheck.pair_failures(outs, False, tol={"d": pd.get("dtol"), "f": pd.get("ftol", 1e-3), "h": pd.get("htol", 1e-9)}[sc],
                                           scale_fn=(lambda k, a, b, s, s0=s0: max(s, s0)) if s0 is not None else None)
            if pd.get("post"): bad = bad + pd["post"](c, outs, sc)
            if pd.get("drop"): bad = pd["drop"](c, bad)
            th2, lin = tangent_stats(c) if bad else (None, None)
            ra_ = rot_angles(c) if bad else {}
            for k, why in bad:
                nm = pd["pairs"][k] if k < len(pd["pairs"]) else pd.get("post_names", {}).get(k, "rotation angle of log(X) <= pi")
                if 2 * k + 1 >= len(outs): outs = outs + [[], []] * (k + 1)
                viol.append(("pred", dict(group=c["group"], pred=c["op"], scalar=sc, pair=nm, _args=c["args"], theta2=th2, lin=lin, **ra_),
                             "%s: %s fails over %s: %s" % (c["group"], nm, {"q": "exact rationals", "d": "double", "f": "float", "h": "100-digit arithmetic"}[sc], why),
                             dict(kind="predicate", scalar=sc, pair=nm, case=corr.case_json(c),
                                  lhs=[fs(x) if not isinstance(x, float) else str(x) for x in outs[2 * k]],
                                  rhs=[fs(x) if not isinstance(x, float) else str(x) for x in outs[2 * k + 1]], why=why), True))
    # cross-scalar comparison: the same outputs computed by two instantiations of the same templates (e.g. double against 100 digits)
    for pd in P.get("preds", []):
        if not pd.get("xscalars"): continue
        sa, sb = pd["xscalars"]
        sub = [c for c in pcases if c["op"] == pd["op"] and (not pd.get("pre") or pd["pre"](c))]
        if not sub: continue
        ra, be1 = vcheck.run_impl(sub, scalar=sa); rb, be2 = vcheck.run_impl(sub, scalar=sb)
        for n_, lg in list(be1.items()) + list(be2.items()):
            stats["pred_build_errors"].append(n_)
            viol.append(("build", dict(binary=n_), "harness %s does not build against the current tree: %s" % (n_, lg[-400:]), dict(binary=n_, log=lg[-3000:]), False))
        for x, y in zip(ra, rb):
            c = x["case"]
            oa, ob = vcheck.parse_outs(x["impl"]), vcheck.parse_outs(y["impl"])
            if oa is None or ob is None:
                if x["impl"] in ("build_failed",) or y["impl"] in ("build_failed",): continue
                viol.append(("pred", dict(group=c["group"], pred=c["op"], scalar=sa, pair="exception", _args=c["args"]),
                             "%s %s raised: %s=%s %s=%s" % (c["group"], c["op"], sa, x["impl"][:60], sb, y["impl"][:60]),
                             dict(kind="predicate", scalar=sa, case=corr.case_json(c), result=[x["impl"][:300], y["impl"][:300]]), True)); continue
            stats["pred_evaluations"] += 1; stats["pred_pairs"] += len(oa) // 2
            s0 = pd["dscale"](c) if pd.get("dscale") else None
            th2, lin = tangent_stats(c); ra_ = None
            for k in range(len(oa) // 2):
                b_ = vcheck.pair_failures([oa[2 * k], ob[2 * k + (1 if pd.get("xref") == "rhs" else 0)]], False, tol=pd["xtol"], scale_fn=(lambda k_, a, b, s, s0=s0: max(s, s0)) if s0 is not None else None)
                for _, why in b_:
                    nm = pd["pairs"][k] if k < len(pd["pairs"]) else "pair%d" % k
                    if ra_ is None: ra_ = rot_angles(c)
                    viol.append(("pred", dict(group=c["group"], pred=c["op"], scalar=sa, pair=nm, _args=c["args"], theta2=th2, lin=lin, **ra_),
                                 "%s: %s in %s differs from the %s evaluation of the same code: %s" % (c["group"], nm, {"d": "double", "f": "float"}.get(sa, sa), {"h": "100-digit"}.get(sb, sb), why),
                                 dict(kind="predicate", scalar=sa, against=sb, pair=nm, case=corr.case_json(c),
                                      lhs=[fs(v_) if not isinstance(v_, float) else str(v_) for v_ in oa[2 * k]][:120],
                                      rhs=[fs(v_) if not isinstance(v_, float) else str(v_) for v_ in ob[2 * k]][:120], why=why), True))
    return viol, stats

def run_property(pid, P, tier, seed):
    t0 = time.time()
    def log(m): print("[%s %6.1fs] %s" % (pid, time.time() - t0, m), flush=True)
    known = vlib.load_known()
    violations = []
    rd = os.path.join(vlib.VERIF, "replays", pid)
    if os.path.isdir(rd):
        for f in os.listdir(rd): os.remove(os.path.join(rd, f))
    ncorr, npred = P["n"]["thorough" if tier == "thorough" else "quick"]
    # 1. proof obligations
    proofs = vcheck.check_proofs(pid, P["vfiles"], log)
    # 2. correspondence
    g = mkgen(pid, seed)
    cases = load_corpus(pid) + gen_corr_cases(g, P, ncorr)
    results, be = corr.run_cases(cases)
    summ, dis = corr.summarize(results)
    log("correspondence: %d cases, %d disagreements, %d distinct non-trivial agreeing" % (summ["evaluations"], len(dis), summ["distinct_nontrivial"]))
    raw = []
    for n_, lg in be.items():
        raw.append(("build", dict(binary=n_), "harness %s does not build against the current tree: %s" % (n_, lg[-400:]), dict(binary=n_, log=lg[-3000:]), False))
    # 3. predicates on the implementation
    pcases = gen_pred_cases(g, P, npred)
    # the reproducer of every listed known finding of this property runs on every run (so each prints its KNOWN-FINDING line,
    # and a finding that has disappeared is noticed)
    kf_cases = [corr.case_from_json(k["case"]) for k in known if k.get("status") == "known" and k.get("property") == pid
                and k.get("case") and k["case"].get("op") in [pd["op"] for pd in P.get("preds", [])]]
    pcases = kf_cases + pcases
    pv, pstats = eval_preds(P, pcases, log)
    log("predicates: %d evaluations, %d pairs, %d failures" % (pstats["pred_evaluations"], pstats["pred_pairs"], len(pv)))
    raw += pv
    # groups for which a concrete failing input that is NOT a listed known finding has been found (a listed finding must never
    # stand in for the failing input of a new disagreement of the same group)
    found_groups = set(v[1].get("group") for v in pv if v[4] and not vcheck.match_known(Violation(pid, v[0], v[1], v[2], v[3], v[4]), known))
    # 4. broken obligation or disagreement: the property is no longer shown to hold -> search for a failing input
    dis_keys = {}
    for d in dis:
        k = (d["case"]["group"], d["case"]["op"]); dis_keys.setdefault(k, []).append(d)
    for (gn, op), lst in dis_keys.items():
        if gn in found_groups: continue                    # a concrete failing input for this group is already reported
        d0 = min(lst, key=lambda d: sum(len(fs(x)) for a in d["case"]["args"] for x in a))   # the smallest disagreeing case
        sv = []
        # seeds for the search: up to 8 of the disagreeing cases, those with the largest non-unit coefficients first (a seeded
        # defect confined to a band of inputs shows in the predicate only at the upper end of the band)
        def _size(d):
            return max([min(abs(x), abs(abs(x) - 1)) for a in d["case"]["args"] for x in a if abs(x) < 2] + [0])
        for salt, d in enumerate(sorted(lst, key=_size, reverse=True)[:8]):
            sc_ = gen_pred_cases(mkgen(pid, seed, 7 + salt), P, 48 if tier == "quick" else 200, groups=[gn], seed_args=d["case"])
            v_, _ = eval_preds(P, sc_, log)
            sv += v_
            if sv: break
        sv = [x for x in sv if not vcheck.match_known(Violation(pid, x[0], x[1], x[2], x[3], x[4]), known)]     # a listed finding is not the failing input of this disagreement
        if sv:
            k_, sig, what, rep, fi = sv[0]
            rep = dict(rep); rep["found_by"] = "search after correspondence disagreement on %s.%s" % (gn, op)
            rep["disagreement"] = dict(case=corr.case_json(d0["case"]), impl=d0["impl"][:2000], model=d0["model"][:2000])
            raw.append((k_, sig, what, rep, True)); found_groups.add(gn)
        else:
            raw.append(("corr", dict(group=gn, op=op, _args=d0["case"]["args"]),
                        "correspondence %s.%s no longer checks: model and implementation differ on %d of this run's cases (first: impl %s / model %s)"
                        % (gn, op, len(lst), d0["impl"][:80], d0["model"][:80]),
                        dict(kind="correspondence", names="model function for %s.%s (coq/) vs manif over ExQ" % (gn, op),
                             case=corr.case_json(d0["case"]), impl=d0["impl"][:4000], model=d0["model"][:4000],
                             note="no failing input for the property predicate was found by the search"), False))
    if not proofs["ok"]:
        # a proof obligation (or the development's integrity scan) no longer checks
        if not any(v[4] for v in raw):
            raw.append(("proof", dict(file=proofs.get("failed_file")), proofs["detail"][:300],
                        dict(kind="proof", theorem_file=proofs.get("failed_file"), detail=proofs["detail"],
                             note="the model itself changed or a proof no longer compiles; no failing input found"), False))
    # per-property extra steps
    extra_cov = {}
    for fn in P.get("extra", []):
        ev_, cov_ = fn(pid, P, tier, seed, log)
        raw += ev_; extra_cov.update(cov_)
    # dedupe: one violation per (kind, group, pred/op, pair, scalar)
    seen = set(); vio = []
    for k_, sig, what, rep, fi in raw:
        v_ = Violation(pid, k_, sig, what, rep, fi)
        kn = vcheck.match_known(v_, known)          # listed findings are separated BEFORE de-duplication, so an unlisted
        key = (k_, sig.get("group"), sig.get("pred") or sig.get("op"), sig.get("pair"), sig.get("scalar"), sig.get("binary"),
               sig.get("file"), sig.get("site"), kn.get("id", kn.get("what")) if kn else None)     # violation of the same pair is never hidden behind a listed one
        if key in seen: continue
        seen.add(key); vio.append(v_)
    vio.sort(key=lambda v: 0 if v.found_input else 1)     # violations with a concrete failing input are reported first
    samples = []
    for r in results[:: max(1, len(results) // 4)][:4]:
        samples.append(dict(case=corr.case_line(0, r["case"])[:300], impl=r["impl"][:200], model=r["model"][:200]))
    coverage = dict(evaluations=summ["evaluations"] + pstats["pred_evaluations"], distinct_nontrivial=summ["distinct_nontrivial"],
                    rule="structured generators (tools/gen.py: unit rotations in both hemispheres, angle strata around every threshold, magnitudes 2^-40..2^40), "
                         "one PRNG seeded from VERIF_SEED; a case is non-trivial when model and implementation agree on a result containing entries other than 0/+-1; distinct by (group, op, mask, inputs)",
                    samples=samples, traces_validated_against_impl=summ["evaluations"] - len(dis),
                    disagreements=len(dis), exceptions=summ["exceptions"], per_op=summ["per_op"],
                    predicate_evaluations=pstats["pred_evaluations"], predicate_pairs=pstats["pred_pairs"],
                    input_strata=dict(sorted(g.strata.items())))
    coverage.update(extra_cov)
    return vcheck.finish(pid, tier, seed, P["level"], t0, proofs, coverage, vio, P["assumptions"], known)

def replay(pid, P, path):
    obj = json.load(open(path))
    c = obj.get("case") or (obj.get("disagreement") or {}).get("case")
    if not c:
        print("replay file has no case (it names a proof obligation / build):", json.dumps(obj)[:600]); return 0
    case = corr.case_from_json(c)
    sc = obj.get("scalar", "q")
    if case["op"] in PRED_SIG:
        res, be = vcheck.run_impl([case], scalar=sc)
        print("case:", corr.case_line(0, case)); print("impl (%s):" % sc, res[0]["impl"])
        outs = vcheck.parse_outs(res[0]["impl"])
        pd = [p for p in P["preds"] if p["op"] == case["op"]][0]
        if outs is None: print("predicate raised"); return 1
        bad = vcheck.pair_failures(outs, True) if sc == "q" else vcheck.pair_failures(outs, False, tol=pd["dtol"], scale_fn=lambda k, a, b, s: max(s, pd["dscale"](case)))
        for k, why in bad: print("FAILS:", pd["pairs"][k], why)
        return 1 if bad else 0
    res, be = corr.run_cases([case])
    print("case:", corr.case_line(0, case)); print("impl :", res[0]["impl"]); print("model:", res[0]["model"])
    return 0 if res[0]["impl"] == res[0]["model"] else 1

# ---- Bundles in the per-property checks ("every provided group ... and bundles of them"): one layout (three for C07) is added
# to the groups of these properties; the correspondence runs the property's operations on it against the Bundle model
# (coq/Bundle.v) and the predicates are evaluated on it.  Pairs a predicate does not define for a Bundle are dropped for
# bundle cases only (the harness builds hom(p) / the algebra representation of X for the element groups, not for a product):
# they are covered element-wise by P11 (C11).
B1 = "B[R1,SO3,SE2]"
# (C02, C05, C06 keep to the element groups: their sweeps aim at the switch-over bands where the recorded findings F8a-c live,
#  and the same inaccuracies seen through a Bundle would be the same defects under another name.)
BUNDLE_EXTRA = {"C01": ([B1], {"P01": ["hom(act(X,p))=T(X)hom(p)"]}), "C03": ([B1], {}), "C04": ([B1], {}),
                "C07": (BUNDLES_QUICK, {}), "C09": ([B1], {})}
def _bundle_drop(pd, names):
    idx = set(i for i, nm in enumerate(pd["pairs"]) if nm in names)
    assert len(idx) == len(names), (pd["op"], names)
    old = pd.get("drop")
    def drop(c, bad):
        if old: bad = old(c, bad)
        if c["group"].startswith("B["): bad = [(k, why) for k, why in bad if k not in idx]
        return bad
    pd["drop"] = drop
for _pid, (_bl, _drops) in BUNDLE_EXTRA.items():
    _P = PROPS[_pid]; _P["groups"] = list(_P["groups"]) + [b for b in _bl if b not in _P["groups"]]
    for _pd in _P["preds"]:
        if _pd["op"] in _drops: _bundle_drop(_pd, _drops[_pd["op"]])
    _P["assumptions"] = list(_P["assumptions"]) + ["Bundle layout(s) %s are included in this check's correspondence and predicates (model coq/Bundle.v)" % ", ".join(_bl)]

def extra_specs():
    """further harness binaries the registered checks need (built by tools/setup to warm the cache)"""
    specs = []
    base = list(corr.GSETS.keys())
    for sc in ("q", "d", "f"): specs += corr.harness_specs(base, False, False, sc)          # assertion-enabled builds (C08 walks, C13)
    specs += corr.harness_specs(base, True, False, "f")                                       # float, NDEBUG (C08, C12, C13)
    specs += corr.harness_specs(base, True, False, "h")                                       # 100-digit (C02, C03, C05)
    for sc in ("D", "E"): specs += corr.harness_specs(base, True, 2, sc)                     # dual numbers (C12)
    bset = sorted(set(corr.BUNDLES[b] for b in BUNDLES_QUICK))
    for sc in ("q", "d"): specs += corr.harness_specs(bset, True, False, sc)                 # bundle layouts (C11, C14)
    specs += corr.harness_specs([corr.BUNDLES[B1]], True, False, "h")                         # one bundle layout over 100 digits (C03)
    specs += [dict(name="hsan%s" % s_, source="main.cpp", defines=["-DVQ_GROUPSET=%s" % s_, "-DVQ_SCALAR=1"],
                   flags=("-std=c++11", "-O1", "-g", "-fsanitize=address,undefined", "-fno-sanitize-recover=all", "-fno-omit-frame-pointer"), libs=("-lgmpxx", "-lgmp", "-lmpfr")) for s_ in base]
    specs += [dict(name="threads_plain", source="threads.cpp", defines=[], flags=("-std=c++11", "-O2", "-pthread"), libs=()),
              dict(name="threads_tsan", source="threads.cpp", defines=[], flags=("-std=c++11", "-O1", "-g", "-fsanitize=thread"), libs=(), compiler="clang++")]
    seen = set(); out = []
    for sp in specs:
        if sp["name"] in seen: continue
        seen.add(sp["name"]); out.append(sp)
    return out
