// threads.cpp — property C14 support run: N threads race on the very first use of every lazily initialised static helper
// (Identity, Zero, Generator(i), InnerWeights, the constant Jacobians / adjoints of SO2 and Rn) and on const operations
// over shared elements, for every group and a bundle; every thread's results are compared with the single-thread results
// computed afterwards.  Built plain (g++ -O2 -pthread) and under ThreadSanitizer (clang++ -fsanitize=thread).
// Exit: 0 ok, 1 a thread saw a different value, 66 (TSan's default) a data race was reported.
#include <manif/manif.h>
#include <manif/Bundle.h>
#include <thread>
#include <atomic>
#include <vector>
#include <iostream>
#include <cstring>
using namespace manif;

static std::atomic<int> ready(0); static std::atomic<bool> go(false);

template<class G> void collect(std::vector<double>& out, int tid, const G& X, const typename G::Tangent& t){
  using T = typename G::Tangent;
  auto push = [&](const Eigen::MatrixXd& m){ for(int i=0;i<m.rows();i++) for(int j=0;j<m.cols();j++) out.push_back(m(i,j)); };
  for(int k=0;k<T::DoF;k++){ int i = (tid*7 + k*3) % T::DoF; push(Eigen::MatrixXd(T::Generator(i))); out.push_back(i); }   // different indices in different threads
  push(Eigen::MatrixXd(T::InnerWeights())); push(Eigen::MatrixXd(G::Identity().coeffs())); push(Eigen::MatrixXd(T::Zero().coeffs()));
  push(Eigen::MatrixXd(X.adj())); push(Eigen::MatrixXd(t.rjac())); push(Eigen::MatrixXd(t.ljac())); push(Eigen::MatrixXd(t.smallAdj()));
  push(Eigen::MatrixXd(X.inverse().coeffs())); push(Eigen::MatrixXd(X.log().coeffs())); push(Eigen::MatrixXd(t.exp().coeffs()));
  push(Eigen::MatrixXd(X.compose(X).coeffs())); push(Eigen::MatrixXd(t.hat())); push(Eigen::MatrixXd(X.rplus(t).coeffs()));
  out.push_back(t.inner(t)); out.push_back(t.weightedNorm()); { G I; I.setIdentity(); push(Eigen::MatrixXd(I.coeffs())); }
}
template<class G> void sorted_collect(std::vector<double>& out, const G& X, const typename G::Tangent& t){
  // the single-thread reference uses every index, in index order: compare per (index) block
  (void)out; (void)X; (void)t;
}
struct Shared {
  SO2d a; SE2d b; SO3d c; SE3d d; SE_2_3d e; SGal3d f; R3d g; R1d h; Bundle<double, SE2, SO3, R2> bu; Bundle<double, SO3, SO3, SO3, SO3> b4;
  SO2Tangentd ta; SE2Tangentd tb; SO3Tangentd tc; SE3Tangentd td; SE_2_3Tangentd te; SGal3Tangentd tf; R3Tangentd tg; R1Tangentd th;
  Bundle<double, SE2, SO3, R2>::Tangent tbu; Bundle<double, SO3, SO3, SO3, SO3>::Tangent tb4;
};
static void all(std::vector<double>& out, int tid, const Shared& s){
  collect(out,tid,s.a,s.ta); collect(out,tid,s.b,s.tb); collect(out,tid,s.c,s.tc); collect(out,tid,s.d,s.td); collect(out,tid,s.e,s.te);
  collect(out,tid,s.f,s.tf); collect(out,tid,s.g,s.tg); collect(out,tid,s.h,s.th); collect(out,tid,s.bu,s.tbu); collect(out,tid,s.b4,s.tb4);
}
int main(int argc, char** argv){
  const int N = argc>1 ? atoi(argv[1]) : 8; const int rounds = argc>2 ? atoi(argv[2]) : 3;
  // elements are built from raw coefficients (no library static is touched before the threads start)
  Shared s;
  s.a.coeffs() << 0.6, 0.8; s.b.coeffs() << 1, -2, 0.6, 0.8; s.c.coeffs() << 2./7, 3./7, 6./7, 0; s.d.coeffs() << 1, 2, 3, -0.5, 0.5, -0.5, -0.5;
  s.e.coeffs() << 1, 2, 3, 2./7, 3./7, 6./7, 0, 4, 5, 6; s.f.coeffs() << 1, 2, 3, -0.5, 0.5, -0.5, -0.5, 4, 5, 6, 0.7; s.g.coeffs() << 1, 2, 3; s.h.coeffs() << 4;
  s.bu.coeffs() << 1, -2, 0.6, 0.8, 2./7, 3./7, 6./7, 0, 5, 6; s.b4.coeffs() << 0,0,0,1, 2./7,3./7,6./7,0, -0.5,0.5,-0.5,-0.5, 0.6,0,0.8,0;
  s.ta.coeffs() << 0.3; s.tb.coeffs() << 1, 2, 0.3; s.tc.coeffs() << 0.1, -0.2, 0.3; s.td.coeffs() << 1, 2, 3, 0.1, -0.2, 0.3;
  s.te.coeffs() << 1, 2, 3, 0.1, -0.2, 0.3, 4, 5, 6; s.tf.coeffs() << 1, 2, 3, 4, 5, 6, 0.1, -0.2, 0.3, 0.5; s.tg.coeffs() << 1, 2, 3; s.th.coeffs() << 2;
  s.tbu.coeffs() << 1, 2, 0.3, 0.1, -0.2, 0.3, 7, 8; s.tb4.coeffs() << 0.1,0.2,0.3, -0.1,0.2,0.1, 0.3,0.3,0.3, 0,0.1,0;
  std::vector<std::vector<double>> res(N);
  std::vector<std::thread> th;
  for(int i=0;i<N;i++) th.emplace_back([&,i]{ ready++; while(!go.load(std::memory_order_acquire)){} for(int r=0;r<rounds;r++){ res[i].clear(); all(res[i], i, s); } });
  while(ready.load() < N){} go.store(true, std::memory_order_release);
  for(auto& t: th) t.join();
  int bad = 0;
  for(int i=0;i<N;i++){ std::vector<double> ref; all(ref, i, s);            // the same calls, now alone
    if(ref.size()!=res[i].size() || std::memcmp(ref.data(), res[i].data(), ref.size()*sizeof(double))!=0){ bad++;
      size_t k=0; while(k<ref.size() && k<res[i].size() && std::memcmp(&ref[k], &res[i][k], sizeof(double))==0) k++;
      std::cout << "MISMATCH thread " << i << " at output " << k << ": concurrent " << (k<res[i].size()?res[i][k]:0) << " vs alone " << (k<ref.size()?ref[k]:0) << "\n"; } }
  std::cout << (bad ? "FAIL" : "ok") << " threads=" << N << " outputs_per_thread=" << res[0].size() << "\n";
  return bad ? 1 : 0;
}
