#!/bin/bash
# tools/confirm_seed.sh <seed-id> : confirm a seeded change independently in the scratch worktree /tmp/confirm
#  (a) patch applies, (b) the unedited test suite still builds and passes with it (NDEBUG baseline flags),
#  (c) the demonstration passes on the unmodified tree and fails with the change.  Log -> /verif/seeded/<id>/confirm.log
id=$1; S=/verif/seeded/$id; W=/tmp/confirm
# the unmodified tree is a pristine export of HEAD (never /repo's working tree, which a seed run may have patched at this moment)
O=/tmp/confirm_orig; [ -d $O/include ] || { mkdir -p $O && git -C /repo archive HEAD | tar -x -C $O; }
[ -d $W ] || git -C /repo worktree add --detach $W HEAD >/dev/null 2>&1
cd $W && git checkout -- . && git clean -fdq -e _build && git checkout -q --detach $(git -C /repo rev-parse HEAD)
{
echo "== seed $id  $(date -u +%FT%TZ)  repo HEAD $(git -C /repo rev-parse --short HEAD)"
git apply --check $S/patch.diff && git apply $S/patch.diff && echo "patch applied" || { echo "PATCH DOES NOT APPLY"; exit 1; }
[ -f _build/build.ninja ] || cmake -G Ninja -S . -B _build -DBUILD_TESTING=ON -DCMAKE_BUILD_TYPE=RelWithDebInfo -DCMAKE_CXX_FLAGS=-Wno-error >/dev/null
if cmake --build _build -j${JOBS:-8} >/tmp/confirm_build.log 2>&1; then echo "test suite builds with the change"; else echo "TEST SUITE DOES NOT BUILD"; tail -20 /tmp/confirm_build.log; fi
ctest --test-dir _build -j8 --timeout 900 2>&1 | tail -3
INC="-I/usr/include/eigen3"
if [ -f $S/run_demo.sh ]; then
  bash $S/run_demo.sh $W > /tmp/confirm_demo_mod.out 2>&1; echo "demo on modified tree: exit $?"; tail -4 /tmp/confirm_demo_mod.out
  bash $S/run_demo.sh $O > /tmp/confirm_demo_orig.out 2>&1; echo "demo on unmodified tree: exit $?"; tail -2 /tmp/confirm_demo_orig.out
else
g++ -std=c++11 -O1 -pthread -I$W/include -I$W/external/tl $INC $S/demo.cpp -o /tmp/confirm_demo_mod 2>&1 | tail -5
/tmp/confirm_demo_mod > /tmp/confirm_demo_mod.out 2>&1; echo "demo on modified tree: exit $?"; tail -4 /tmp/confirm_demo_mod.out
g++ -std=c++11 -O1 -pthread -I$O/include -I$O/external/tl $INC $S/demo.cpp -o /tmp/confirm_demo_orig 2>&1 | tail -5
/tmp/confirm_demo_orig > /tmp/confirm_demo_orig.out 2>&1; echo "demo on unmodified tree: exit $?"; tail -2 /tmp/confirm_demo_orig.out
fi
git checkout -- .
rm -f /tmp/confirm_demo_mod /tmp/confirm_demo_orig
} > $S/confirm.log 2>&1
tail -12 $S/confirm.log
