(* Ctor.v — model of the constructors and setters of the concrete classes (SO2.h, SE2.h, SO3.h, SE3.h, SE_2_3.h,
   SGal3.h, Rn.h): every one delegates to the constructor from a coefficient vector, which runs the
   AssignmentEvaluator (MANIF_ASSERT |norm - 1| < eps on the rotation coefficients) when assertions are enabled.
   Eigen pieces used by them: AngleAxis -> Quaternion, AngleAxis * AngleAxis (quaternion product),
   Quaternion(Matrix3) (Shoemake's trace-branch algorithm), Rotation2D(Matrix2).angle(). *)
From Coq Require Import ZArith List Bool.
Import ListNotations.
From Manif Require Import Scalar Mat Consts Group SO2 SE2 SO3 SE3 SE23 SGal3 Rn.

Section Ctor.
Variable F : Sc.
Variable eps : K F.
Local Notation vec := (list (K F)).
Local Notation mat := (list (list (K F))).
Local Notation "a + b" := (kadd F a b) : k_scope.
Local Notation "a - b" := (ksub F a b) : k_scope.
Local Notation "a * b" := (kmul F a b) : k_scope.
Local Notation "a / b" := (kdiv F a b) : k_scope.
Local Open Scope k_scope.

(* the constructor from a coefficient vector *)
Definition checked (G : GroupOps F) (asserts : bool) (c : vec) : res vec :=
  if asserts && negb (g_assert_ok G c) then InvalidArgument else Ok c.

(* Eigen: Quaternion(AngleAxis(angle, axis)) *)
Definition aa_quat (angle : K F) (axis : vec) : vec := quat_of_angle_axis F angle axis.
Definition unitX : vec := [kz 1; kz 0; kz 0].
Definition unitY : vec := [kz 0; kz 1; kz 0].
Definition unitZ : vec := [kz 0; kz 0; kz 1].
(* AngleAxis(yaw, Z) * AngleAxis(pitch, Y) * AngleAxis(roll, X) *)
Definition rpy_quat (roll pitch yaw : K F) : vec :=
  quat_mul F (quat_mul F (aa_quat yaw unitZ) (aa_quat pitch unitY)) (aa_quat roll unitX).

(* Eigen: Quaternion(Matrix3) — quaternionbase_assign_impl<Other,3,3> *)
Definition quat_of_matrix (m : mat) : vec :=
  let c := fun i j => mnth m i j in
  let t := c 0%nat 0%nat + c 1%nat 1%nat + c 2%nat 2%nat in
  if kgtb t (kz 0) then
    let t1 := ksqrt F (t + kz 1) in
    let w := c_half * t1 in
    let t2 := c_half / t1 in
    [(c 2%nat 1%nat - c 1%nat 2%nat) * t2; (c 0%nat 2%nat - c 2%nat 0%nat) * t2; (c 1%nat 0%nat - c 0%nat 1%nat) * t2; w]
  else
    let i := if kgtb (c 1%nat 1%nat) (c 0%nat 0%nat) then 1%nat else 0%nat in
    let i := if kgtb (c 2%nat 2%nat) (c i i) then 2%nat else i in
    let j := Nat.modulo (i + 1) 3 in let k := Nat.modulo (j + 1) 3 in
    let t1 := ksqrt F (c i i - c j j - c k k + kz 1) in
    let qi := c_half * t1 in
    let t2 := c_half / t1 in
    let w := (c k j - c j k) * t2 in
    let qj := (c j i + c i j) * t2 in
    let qk := (c k i + c i k) * t2 in
    let xyz := vset (vset (vset [kz 0; kz 0; kz 0] i [qi]) j [qj]) k [qk] in
    xyz ++ [w].

Definition mat_of (v : vec) (n : nat) : mat := map (fun i => vslice v (i * n) n) (seq 0 n).

Definition a (args : list vec) (i : nat) : vec := nth i args [].
Definition a0 (args : list vec) (i : nat) : K F := vnth (a args i) 0.

(* id: which constructor / setter; args: the supplied quantities *)
Definition so2_ctor (id : Z) (args : list vec) : option vec :=
  match id with
  | 0%Z => Some [vnth (a args 0) 0; vnth (a args 0) 1]                            (* SO2(real, imag) / raw coefficients *)
  | 1%Z => Some [kcos F (a0 args 0); ksin F (a0 args 0)]                          (* SO2(theta) *)
  | _ => None
  end.
Definition se2_ctor (id : Z) (args : list vec) : option vec :=
  match id with
  | 0%Z => let v := a args 0 in Some (se2_from_angle F (vnth v 0) (vnth v 1) (vnth v 2))     (* SE2(x, y, theta) *)
  | 1%Z => let v := a args 0 in Some [vnth v 0; vnth v 1; vnth v 2; vnth v 3]               (* SE2(x, y, real, imag) / (t, complex) / raw *)
  | 2%Z => let t := a args 0 in let m := a args 1 in                                       (* SE2(Isometry2): Rotation2D(R).angle() = atan2(R10, R00) *)
           Some (se2_from_angle F (vnth t 0) (vnth t 1) (katan2 F (vnth m 2) (vnth m 0)))
  | _ => None
  end.
Definition so3_quat_ctor (id : Z) (args : list vec) (k : nat) : option vec :=
  (* the rotation argument starting at args[k]: 0 quaternion coefficients, 1 angle-axis, 2 roll-pitch-yaw, 3 rotation matrix *)
  match id with
  | 0%Z => Some (firstn 4 (a args k))
  | 1%Z => Some (aa_quat (a0 args k) (a args (S k)))
  | 2%Z => let v := a args k in Some (rpy_quat (vnth v 0) (vnth v 1) (vnth v 2))
  | 3%Z => Some (quat_of_matrix (mat_of (a args k) 3))
  | _ => None
  end.
Definition so3_ctor (id : Z) (args : list vec) : option vec := so3_quat_ctor id args 0.
(* SE3(t, rotation): args[0] = t, rotation from args[1]; SE3(x,y,z,r,p,y) is id 2 with args[0] = xyz, args[1] = rpy *)
Definition se3_ctor (id : Z) (args : list vec) : option vec :=
  match so3_quat_ctor id args 1 with Some q => Some (firstn 3 (a args 0) ++ q) | None => None end.
(* SE_2_3(t, rotation, v): v is the last argument *)
Definition se23_ctor (id : Z) (args : list vec) : option vec :=
  match so3_quat_ctor id args 1 with
  | Some q => Some (firstn 3 (a args 0) ++ q ++ firstn 3 (last args []))
  | None => None end.
(* SGal3(t, rotation, v, time): v and [time] are the last two arguments *)
Definition sg_ctor (id : Z) (args : list vec) : option vec :=
  match so3_quat_ctor id args 1 with
  | Some q => let n := length args in
              Some (firstn 3 (a args 0) ++ q ++ firstn 3 (a args (n - 2)) ++ [vnth (a args (n - 1)) 0])
  | None => None end.

(* setters on an existing element X = args[0] (ids from 10): quat(q) validates like a constructor; translation(t) does not *)
Definition set_quat (off : nat) (X q : vec) : vec := vset X off (firstn 4 q).
Definition quat_ok (q : vec) : bool := kltb F (kabs (ksub F (eigen_norm F (firstn 4 q)) (kz 1))) eps.
End Ctor.
Arguments checked {F}. Arguments quat_of_matrix {F}. Arguments rpy_quat {F}. Arguments aa_quat {F}. Arguments mat_of {F}.
Arguments so2_ctor {F}. Arguments se2_ctor {F}. Arguments so3_ctor {F}. Arguments se3_ctor {F}. Arguments se23_ctor {F}. Arguments sg_ctor {F}.
Arguments set_quat {F}. Arguments quat_ok {F}. Arguments so3_quat_ctor {F}.
