(* BundleLaws.v — lifting of the per-group laws (C01 group laws on coefficient vectors, C03 exp/log round trips) to a
   Bundle over ANY list of element groups and ANY scalar.  The Bundle of Bundle.v is written as the code writes it
   (offset tables, views, assemble); here it is shown that on a concatenation of valid element coefficient vectors every
   operation is the element operation on the i-th part, and therefore that the element laws hold for the Bundle. *)
From Coq Require Import ZArith List Lia.
From Manif Require Import Scalar Mat Group Generic Bundle BundleProofs.
Import ListNotations.

Section ListFacts.
Variable A : Type.
Lemma concat_firstn_skipn (ps : list (list A)) i : (i < length ps)%nat ->
  concat ps = concat (firstn i ps) ++ nth i ps [] ++ concat (skipn (S i) ps).
Proof.
  revert i. induction ps as [|p ps IH]; intros i H; [inversion H|]. destruct i as [|i].
  - reflexivity.
  - cbn [length] in H. cbn [firstn skipn nth concat]. rewrite (IH i) at 1 by lia. rewrite app_assoc. reflexivity.
Qed.
Lemma length_concat_acc (ps : list (list A)) : length (concat ps) = accumulate (map (@length A) ps).
Proof. induction ps as [|p ps IH]; [reflexivity|]. cbn [concat map]. rewrite app_length, IH. reflexivity. Qed.
Lemma vslice_mid (pre w post : list A) : vslice (pre ++ w ++ post) (length pre) (length w) = w.
Proof.
  unfold vslice. rewrite skipn_app, skipn_all, Nat.sub_diag. cbn [app skipn].
  rewrite firstn_app, firstn_all, Nat.sub_diag. cbn [firstn]. apply app_nil_r.
Qed.
Lemma vslice_concat (ps : list (list A)) i : (i < length ps)%nat ->
  vslice (concat ps) (accumulate (firstn i (map (@length A) ps))) (length (nth i ps [])) = nth i ps [].
Proof.
  intros H. rewrite (concat_firstn_skipn ps i H) at 1.
  rewrite firstn_map, <- length_concat_acc. apply vslice_mid.
Qed.
End ListFacts.

Section Lift.
Variable F : Sc.
Variable L : list (GroupOps F).
Variable d : GroupOps F.
Local Notation vec := (list (K F)).
Local Notation n := (length L).

Lemma indexed_length : length (indexed L) = n.
Proof. unfold indexed. rewrite combine_length, seq_length. apply Nat.min_id. Qed.
Lemma imap_length {A} (f : nat -> GroupOps F -> A) : length (imap L f) = n.
Proof. unfold imap. rewrite map_length. apply indexed_length. Qed.
Lemma nth_imap {A} (f : nat -> GroupOps F -> A) (a : A) i : (i < n)%nat -> nth i (imap L f) a = f i (nth i L d).
Proof.
  intros H. unfold imap. rewrite (nth_indep _ a (f (fst (0%nat, d)) (snd (0%nat, d)))) by (rewrite map_length, indexed_length; exact H).
  rewrite (map_nth (fun p => f (fst p) (snd p))). unfold indexed. rewrite combine_nth by (apply seq_length).
  cbn [fst snd]. rewrite seq_nth by exact H. reflexivity.
Qed.
Lemma imap_ext {A} (f g : nat -> GroupOps F -> A) : (forall i, (i < n)%nat -> f i (nth i L d) = g i (nth i L d)) -> imap L f = imap L g.
Proof.
  intros H. destruct L as [|G0 L'] eqn:EL; [reflexivity|]. rewrite <- EL in *.
  apply (nth_ext _ _ (f 0%nat d) (g 0%nat d)); [rewrite !imap_length; reflexivity|].
  intros i Hi. rewrite imap_length in Hi. rewrite !nth_imap by exact Hi. apply H. exact Hi.
Qed.
Lemma map_imap {A B} (h : A -> B) (f : nat -> GroupOps F -> A) : map h (imap L f) = imap L (fun i G => h (f i G)).
Proof. unfold imap. rewrite map_map. reflexivity. Qed.
Lemma imap_sizes (f : GroupOps F -> nat) : imap L (fun _ G => f G) = map f L.
Proof.
  unfold imap, indexed. generalize 0%nat. induction L as [|G L' IH]; intros s; [reflexivity|].
  cbn [length seq combine map fst snd]. f_equal. apply IH.
Qed.

(* a list of parts whose i-th part has the size the i-th group prescribes *)
Definition sized (f : GroupOps F -> nat) (ps : list vec) : Prop := map (@length (K F)) ps = map f L.
Lemma sized_length f ps : sized f ps -> length ps = n.
Proof. intros H. apply (f_equal (@length nat)) in H. rewrite !map_length in H. exact H. Qed.
Lemma sized_nth f ps i : sized f ps -> (i < n)%nat -> length (nth i ps []) = f (nth i L d).
Proof.
  intros H Hi. pose proof (sized_length f ps H) as Hl.
  rewrite <- (map_nth (@length (K F))). cbn [length]. rewrite H. rewrite (nth_indep _ _ (f d)) by (rewrite map_length; exact Hi).
  apply map_nth.
Qed.
Lemma sized_imap f (h : nat -> GroupOps F -> vec) : (forall i, (i < n)%nat -> length (h i (nth i L d)) = f (nth i L d)) -> sized f (imap L h).
Proof.
  intros H. unfold sized. rewrite map_imap, <- imap_sizes. apply imap_ext. exact H.
Qed.

(* the i-th view of a concatenation of rightly-sized parts is the i-th part *)
Theorem view_concat f ps i : sized f ps -> (i < n)%nat -> vslice (concat ps) (idx L f i) (f (nth i L d)) = nth i ps [].
Proof.
  intros H Hi. rewrite (idx_off F L f i Hi). unfold off. rewrite <- H. rewrite <- (sized_nth f ps i H Hi).
  apply vslice_concat. rewrite (sized_length f ps H). exact Hi.
Qed.

(* unary and binary element-wise operations on concatenations *)
Theorem lift1 fin fout (h : GroupOps F -> vec -> vec) ps : sized fin ps ->
  (forall i, (i < n)%nat -> length (h (nth i L d) (nth i ps [])) = fout (nth i L d)) ->
  assemble L fout (imap L (fun i G => h G (vslice (concat ps) (idx L fin i) (fin G)))) = concat (imap L (fun i G => h G (nth i ps []))).
Proof.
  intros Hs Hl.
  rewrite (imap_ext (fun i G => h G (vslice (concat ps) (idx L fin i) (fin G))) (fun i G => h G (nth i ps [])))
    by (intros i Hi; rewrite (view_concat fin ps i Hs Hi); reflexivity).
  apply assemble_is_concat. apply sized_imap. exact Hl.
Qed.
Theorem lift2 fa fb fout (h : GroupOps F -> vec -> vec -> vec) ps qs : sized fa ps -> sized fb qs ->
  (forall i, (i < n)%nat -> length (h (nth i L d) (nth i ps []) (nth i qs [])) = fout (nth i L d)) ->
  assemble L fout (imap L (fun i G => h G (vslice (concat ps) (idx L fa i) (fa G)) (vslice (concat qs) (idx L fb i) (fb G))))
  = concat (imap L (fun i G => h G (nth i ps []) (nth i qs []))).
Proof.
  intros Hp Hq Hl.
  rewrite (imap_ext (fun i G => h G (vslice (concat ps) (idx L fa i) (fa G)) (vslice (concat qs) (idx L fb i) (fb G)))
                    (fun i G => h G (nth i ps []) (nth i qs [])))
    by (intros i Hi; rewrite (view_concat fa ps i Hp Hi), (view_concat fb qs i Hq Hi); reflexivity).
  apply assemble_is_concat. apply sized_imap. exact Hl.
Qed.

(* ---- element laws and their lifting ---- *)
(* V i : validity of the i-th element's coefficient vector (e.g. unit-norm rotation part) *)
Variable V : nat -> vec -> Prop.
Definition valid_parts (ps : list vec) : Prop := length ps = n /\ forall i, (i < n)%nat -> V i (nth i ps []).
Definition bvalid (X : vec) : Prop := exists ps, valid_parts ps /\ X = concat ps.

Hypothesis V_size : forall i X, (i < n)%nat -> V i X -> length X = g_rep (nth i L d).
Lemma valid_sized ps : valid_parts ps -> sized g_rep ps.
Proof.
  intros [Hl Hv]. unfold sized. apply (nth_ext _ _ 0%nat 0%nat); [rewrite !map_length; exact Hl|].
  intros i Hi. rewrite map_length, Hl in Hi.
  change 0%nat with (length (@nil (K F))) at 1. rewrite map_nth.
  rewrite (nth_indep _ _ (g_rep d)) by (rewrite map_length; exact Hi). rewrite map_nth. apply V_size; auto.
Qed.

Definition pcompose (ps qs : list vec) : list vec := imap L (fun i G => g_compose G (nth i ps []) (nth i qs [])).
Definition pinverse (ps : list vec) : list vec := imap L (fun i G => g_inverse G (nth i ps [])).
Definition pidentity : list vec := imap L (fun _ G => g_identity G).

Hypothesis V_compose : forall i X Y, (i < n)%nat -> V i X -> V i Y -> V i (g_compose (nth i L d) X Y).
Hypothesis V_inverse : forall i X, (i < n)%nat -> V i X -> V i (g_inverse (nth i L d) X).
Hypothesis V_identity : forall i, (i < n)%nat -> V i (g_identity (nth i L d)).

Lemma pcompose_valid ps qs : valid_parts ps -> valid_parts qs -> valid_parts (pcompose ps qs).
Proof.
  intros [Hl Hv] [Hl' Hv']. split; [apply imap_length|]. intros i Hi. unfold pcompose. rewrite nth_imap by exact Hi.
  apply V_compose; auto.
Qed.
Lemma pinverse_valid ps : valid_parts ps -> valid_parts (pinverse ps).
Proof.
  intros [Hl Hv]. split; [apply imap_length|]. intros i Hi. unfold pinverse. rewrite nth_imap by exact Hi. apply V_inverse; auto.
Qed.
Lemma pidentity_valid : valid_parts pidentity.
Proof. split; [apply imap_length|]. intros i Hi. unfold pidentity. rewrite nth_imap by exact Hi. apply V_identity; auto. Qed.

(* the Bundle's operations on concatenations of valid parts *)
Theorem bundle_compose_parts ps qs : valid_parts ps -> valid_parts qs ->
  g_compose (Bundle L) (concat ps) (concat qs) = concat (pcompose ps qs).
Proof.
  intros Hp Hq. cbn [g_compose Bundle]. unfold b_compose, el.
  apply (lift2 g_rep g_rep g_rep (fun G => g_compose G) ps qs (valid_sized ps Hp) (valid_sized qs Hq)).
  intros i Hi. apply V_size; [exact Hi|]. destruct Hp as [_ Hp], Hq as [_ Hq]. apply V_compose; auto.
Qed.
Theorem bundle_inverse_parts ps : valid_parts ps -> g_inverse (Bundle L) (concat ps) = concat (pinverse ps).
Proof.
  intros Hp. cbn [g_inverse Bundle]. unfold b_inverse, el.
  apply (lift1 g_rep g_rep (fun G => g_inverse G) ps (valid_sized ps Hp)).
  intros i Hi. apply V_size; [exact Hi|]. destruct Hp as [_ Hp]. apply V_inverse; auto.
Qed.

Lemma skipn_repeat' {A} (x : A) off tot : skipn off (repeat x tot) = repeat x (tot - off).
Proof. revert tot. induction off as [|o IH]; intros [|t]; cbn; auto. Qed.
Lemma firstn_repeat' {A} (x : A) len tot : (len <= tot)%nat -> firstn len (repeat x tot) = repeat x len.
Proof. revert tot. induction len as [|l IH]; intros [|t] H; cbn; auto; [lia|]. f_equal. apply IH. lia. Qed.
Lemma vslice_zero (off len tot : nat) : (off + len <= tot)%nat -> vslice (@vzero F tot) off len = @vzero F len.
Proof.
  intros H. unfold vslice, vzero. rewrite skipn_repeat', firstn_repeat' by lia. reflexivity.
Qed.
Theorem bundle_identity_parts : g_identity (Bundle L) = concat pidentity.
Proof.
  unfold g_identity at 1. cbn [g_exp Bundle]. unfold b_exp, t_zero. cbn [g_dof Bundle].
  rewrite (imap_ext (fun i G => g_exp G (tel L (@vzero F (total L g_dof)) i G)) (fun _ G => g_identity G)).
  - apply assemble_is_concat. apply sized_imap. intros i Hi. apply V_size; [exact Hi|]. apply V_identity; exact Hi.
  - intros i Hi. unfold tel, g_identity, t_zero. f_equal. rewrite (idx_off F L g_dof i Hi). apply vslice_zero.
    pose proof (off_fits F L g_dof i Hi) as Hf. rewrite (nth_indep _ _ (g_dof d)) in Hf by (rewrite map_length; exact Hi).
    rewrite map_nth in Hf. exact Hf.
Qed.

(* closure *)
Theorem bundle_compose_valid X Y : bvalid X -> bvalid Y -> bvalid (g_compose (Bundle L) X Y).
Proof.
  intros [ps [Hp ->]] [qs [Hq ->]]. exists (pcompose ps qs). split; [apply pcompose_valid; assumption|].
  apply bundle_compose_parts; assumption.
Qed.
Theorem bundle_inverse_valid X : bvalid X -> bvalid (g_inverse (Bundle L) X).
Proof. intros [ps [Hp ->]]. exists (pinverse ps). split; [apply pinverse_valid; assumption|]. apply bundle_inverse_parts; assumption. Qed.
Theorem bundle_identity_valid : bvalid (g_identity (Bundle L)).
Proof. exists pidentity. split; [apply pidentity_valid|apply bundle_identity_parts]. Qed.

(* part lists with equal entries are equal *)
Lemma parts_ext (ps qs : list vec) : length ps = n -> length qs = n -> (forall i, (i < n)%nat -> nth i ps [] = nth i qs []) -> ps = qs.
Proof. intros Hp Hq H. apply (nth_ext _ _ [] []); [congruence|]. intros i Hi. apply H. rewrite <- Hp. exact Hi. Qed.

(* ---- the group laws of the elements (on coefficient vectors) ---- *)
Hypothesis E_assoc : forall i X Y Z, (i < n)%nat -> V i X -> V i Y -> V i Z ->
  g_compose (nth i L d) (g_compose (nth i L d) X Y) Z = g_compose (nth i L d) X (g_compose (nth i L d) Y Z).
Hypothesis E_neutral_l : forall i X, (i < n)%nat -> V i X -> g_compose (nth i L d) (g_identity (nth i L d)) X = X.
Hypothesis E_neutral_r : forall i X, (i < n)%nat -> V i X -> g_compose (nth i L d) X (g_identity (nth i L d)) = X.
Hypothesis E_inv_l : forall i X, (i < n)%nat -> V i X -> g_compose (nth i L d) (g_inverse (nth i L d) X) X = g_identity (nth i L d).
Hypothesis E_inv_r : forall i X, (i < n)%nat -> V i X -> g_compose (nth i L d) X (g_inverse (nth i L d) X) = g_identity (nth i L d).

Theorem bundle_assoc X Y Z : bvalid X -> bvalid Y -> bvalid Z ->
  g_compose (Bundle L) (g_compose (Bundle L) X Y) Z = g_compose (Bundle L) X (g_compose (Bundle L) Y Z).
Proof.
  intros [ps [Hp ->]] [qs [Hq ->]] [rs [Hr ->]].
  rewrite (bundle_compose_parts ps qs Hp Hq), (bundle_compose_parts qs rs Hq Hr).
  rewrite (bundle_compose_parts _ rs (pcompose_valid ps qs Hp Hq) Hr), (bundle_compose_parts ps _ Hp (pcompose_valid qs rs Hq Hr)).
  f_equal. apply parts_ext; try apply imap_length. intros i Hi. unfold pcompose. rewrite !nth_imap by exact Hi.
  destruct Hp as [_ Hp], Hq as [_ Hq], Hr as [_ Hr]. apply E_assoc; auto.
Qed.
Theorem bundle_neutral_l X : bvalid X -> g_compose (Bundle L) (g_identity (Bundle L)) X = X.
Proof.
  intros [ps [Hp ->]]. rewrite bundle_identity_parts, (bundle_compose_parts _ ps pidentity_valid Hp). f_equal.
  apply parts_ext; [apply imap_length|exact (proj1 Hp)|]. intros i Hi. unfold pcompose, pidentity. rewrite !nth_imap by exact Hi.
  apply E_neutral_l; [exact Hi|apply (proj2 Hp); exact Hi].
Qed.
Theorem bundle_neutral_r X : bvalid X -> g_compose (Bundle L) X (g_identity (Bundle L)) = X.
Proof.
  intros [ps [Hp ->]]. rewrite bundle_identity_parts, (bundle_compose_parts ps _ Hp pidentity_valid). f_equal.
  apply parts_ext; [apply imap_length|exact (proj1 Hp)|]. intros i Hi. unfold pcompose, pidentity. rewrite !nth_imap by exact Hi.
  apply E_neutral_r; [exact Hi|apply (proj2 Hp); exact Hi].
Qed.
Theorem bundle_inv_l X : bvalid X -> g_compose (Bundle L) (g_inverse (Bundle L) X) X = g_identity (Bundle L).
Proof.
  intros [ps [Hp ->]]. rewrite (bundle_inverse_parts ps Hp), (bundle_compose_parts _ ps (pinverse_valid ps Hp) Hp), bundle_identity_parts.
  f_equal. apply parts_ext; try apply imap_length. intros i Hi. unfold pcompose, pinverse, pidentity. rewrite !nth_imap by exact Hi.
  apply E_inv_l; [exact Hi|apply (proj2 Hp); exact Hi].
Qed.
Theorem bundle_inv_r X : bvalid X -> g_compose (Bundle L) X (g_inverse (Bundle L) X) = g_identity (Bundle L).
Proof.
  intros [ps [Hp ->]]. rewrite (bundle_inverse_parts ps Hp), (bundle_compose_parts ps _ Hp (pinverse_valid ps Hp)), bundle_identity_parts.
  f_equal. apply parts_ext; try apply imap_length. intros i Hi. unfold pcompose, pinverse, pidentity. rewrite !nth_imap by exact Hi.
  apply E_inv_r; [exact Hi|apply (proj2 Hp); exact Hi].
Qed.

(* ---- exp / log round trips (C03) lift the same way ---- *)
(* D i : the domain of the i-th element's tangent on which exp(log) / log(exp) hold (principal branch) *)
Variable D : nat -> vec -> Prop.
Definition tangent_parts (ts : list vec) : Prop := length ts = n /\ forall i, (i < n)%nat -> D i (nth i ts []).
Hypothesis D_size : forall i t, (i < n)%nat -> D i t -> length t = g_dof (nth i L d).
Hypothesis E_exp_valid : forall i t, (i < n)%nat -> D i t -> V i (g_exp (nth i L d) t).
Hypothesis E_log_size : forall i X, (i < n)%nat -> V i X -> length (g_log (nth i L d) X) = g_dof (nth i L d).
Lemma tangent_sized ts : tangent_parts ts -> sized g_dof ts.
Proof.
  intros [Hl Hv]. unfold sized. apply (nth_ext _ _ 0%nat 0%nat); [rewrite !map_length; exact Hl|].
  intros i Hi. rewrite map_length, Hl in Hi.
  change 0%nat with (length (@nil (K F))) at 1. rewrite map_nth.
  rewrite (nth_indep _ _ (g_dof d)) by (rewrite map_length; exact Hi). rewrite map_nth. apply D_size; auto.
Qed.
Theorem bundle_exp_parts ts : tangent_parts ts -> g_exp (Bundle L) (concat ts) = concat (imap L (fun i G => g_exp G (nth i ts []))).
Proof.
  intros Ht. cbn [g_exp Bundle]. unfold b_exp, tel.
  apply (lift1 g_dof g_rep (fun G => g_exp G) ts (tangent_sized ts Ht)).
  intros i Hi. apply V_size; [exact Hi|]. apply E_exp_valid; [exact Hi|apply (proj2 Ht); exact Hi].
Qed.
Theorem bundle_log_parts ps : valid_parts ps -> g_log (Bundle L) (concat ps) = concat (imap L (fun i G => g_log G (nth i ps []))).
Proof.
  intros Hp. cbn [g_log Bundle]. unfold b_log, el.
  apply (lift1 g_rep g_dof (fun G => g_log G) ps (valid_sized ps Hp)).
  intros i Hi. apply E_log_size; [exact Hi|apply (proj2 Hp); exact Hi].
Qed.

Hypothesis E_log_exp : forall i t, (i < n)%nat -> D i t -> g_log (nth i L d) (g_exp (nth i L d) t) = t.
Theorem bundle_log_exp ts : tangent_parts ts -> g_log (Bundle L) (g_exp (Bundle L) (concat ts)) = concat ts.
Proof.
  intros Ht. rewrite (bundle_exp_parts ts Ht).
  assert (Hv : valid_parts (imap L (fun i G => g_exp G (nth i ts [])))).
  { split; [apply imap_length|]. intros i Hi. rewrite nth_imap by exact Hi. apply E_exp_valid; [exact Hi|apply (proj2 Ht); exact Hi]. }
  rewrite (bundle_log_parts _ Hv). f_equal. apply parts_ext; [apply imap_length|exact (proj1 Ht)|].
  intros i Hi. rewrite !nth_imap by exact Hi. apply E_log_exp; [exact Hi|apply (proj2 Ht); exact Hi].
Qed.
(* W i : the elements on which exp(log X) = X holds for the i-th group *)
Variable W : nat -> vec -> Prop.
Hypothesis E_exp_log : forall i X, (i < n)%nat -> V i X -> W i X -> g_exp (nth i L d) (g_log (nth i L d) X) = X.
Theorem bundle_exp_log ps : valid_parts ps -> (forall i, (i < n)%nat -> W i (nth i ps [])) ->
  g_exp (Bundle L) (g_log (Bundle L) (concat ps)) = concat ps.
Proof.
  intros Hp Hw. rewrite (bundle_log_parts ps Hp). cbn [g_exp Bundle]. unfold b_exp, tel.
  rewrite (lift1 g_dof g_rep (fun G => g_exp G) (imap L (fun i G => g_log G (nth i ps [])))).
  - f_equal. apply parts_ext; [apply imap_length|exact (proj1 Hp)|]. intros i Hi. rewrite !nth_imap by exact Hi.
    apply E_exp_log; [exact Hi|apply (proj2 Hp); exact Hi|apply Hw; exact Hi].
  - apply sized_imap. intros i Hi. apply E_log_size; [exact Hi|apply (proj2 Hp); exact Hi].
  - intros i Hi. rewrite nth_imap by exact Hi. rewrite E_exp_log; [|exact Hi|apply (proj2 Hp); exact Hi|apply Hw; exact Hi].
    apply V_size; [exact Hi|apply (proj2 Hp); exact Hi].
Qed.
End Lift.
